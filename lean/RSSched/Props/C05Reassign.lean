/-
Props/C05Reassign: the last pipeline stage, `reassign_end_depots_consistent_with_transitions`,
for the model and every schedule: whenever it returns,
* every listed vehicle's tour is its old tour with only the end depot replaced by the end-depot node
  of the depot where its rotation-cycle successor starts (start depot and all activities kept);
* nothing else of the schedule changes except depot usage, costs and the cycle counters: vehicles,
  formations, dummy tours, listings are the same and every rotation cycle keeps its vehicles in
  order (lookup and empty-cycle list too) — so the reported cycles are the ones handed in (C16);
* hence (C05) in the result every vehicle ends in the depot in which its successor starts.
-/
import RSSched.Props.C15Ops
import RSSched.Model.Schedule
import RSSched.Spec.Tour
namespace RSSched.C05
open RSSched C15

/-- what the stage computes for one vehicle, as a relation -/
def EndSpec (nw : Network) (s : Schedule) (v : Veh) (nt : Tour) : Prop :=
  ∃ t vt tr next ntour sd, s.tourOf? v = some t ∧ s.typeOf? v = some vt ∧
    assocGet? s.transitions vt = some tr ∧ Transition.successorOf tr v = .ok next ∧
    s.tourOf? next = some ntour ∧ ntour.startDepot nw = .ok sd ∧
    t.replaceEndDepot nw (nw.endDepotNodeOf (nw.depotIdxOf sd)) = .ok nt

/-- the body of the fold -/
def endStep (nw : Network) (s : Schedule) (acc : Tours × DepotUsage × Nat) (v : Veh) : R (Tours × DepotUsage × Nat) := do
  let (tours, u, costs) := acc
  let t ← unwrapO (s.tourOf? v) "tour_of(vehicle).unwrap()"
  let vt ← unwrapO (s.typeOf? v) "vehicle_type_of(vehicle).unwrap()"
  let tr ← unwrapO (assocGet? s.transitions vt) "next_period_transitions.get(&vehicle_type).unwrap()"
  let next ← Transition.successorOf tr v
  let ntour ← unwrapO (s.tourOf? next) "tour_of(next_vehicle).unwrap()"
  let sd ← Transition.startDepotU nw ntour
  let ne := nw.endDepotNodeOf (nw.depotIdxOf sd)
  let nt ← unwrapR (t.replaceEndDepot nw ne) "replace_end_depot(..).unwrap()"
  let c ← Tour.subNat (costs + nt.costs) t.costs "costs underflow"
  let tours' := assocSet tours v nt
  let u' ← Schedule.updateDepotUsage nw s u s.vehicles tours' v
  pure (tours', u', c)

theorem endStep_ok {nw : Network} {s : Schedule} {acc acc' : Tours × DepotUsage × Nat} {v : Veh}
    (h : endStep nw s acc v = .ok acc') : ∃ nt, EndSpec nw s v nt ∧ acc'.1 = assocSet acc.1 v nt := by
  obtain ⟨tours, u, costs⟩ := acc
  unfold endStep at h
  dsimp only at h
  obtain ⟨t, ht, h⟩ := bind_ok h
  obtain ⟨vt, hvt, h⟩ := bind_ok h
  obtain ⟨tr, htr, h⟩ := bind_ok h
  obtain ⟨next, hnext, h⟩ := bind_ok h
  obtain ⟨ntour, hntour, h⟩ := bind_ok h
  obtain ⟨sd, hsd, h⟩ := bind_ok h
  obtain ⟨nt, hnt, h⟩ := bind_ok h
  obtain ⟨c, _, h⟩ := bind_ok h
  obtain ⟨u', _, h⟩ := bind_ok h
  simp only [pure, Except.pure, Except.ok.injEq] at h
  subst h
  exact ⟨nt, ⟨t, vt, tr, next, ntour, sd, unwrapO_ok ht, unwrapO_ok hvt, unwrapO_ok htr, hnext,
    unwrapO_ok hntour, unwrapR_ok hsd, unwrapR_ok hnt⟩, rfl⟩

/-- the fold over any vehicle list: listed vehicles get their `EndSpec` tour, the others keep theirs -/
theorem endFold (nw : Network) (s : Schedule) : ∀ (L : List Veh) (acc acc' : Tours × DepotUsage × Nat),
    L.foldlM (endStep nw s) acc = .ok acc' →
    (∀ v ∈ L, ∃ nt, EndSpec nw s v nt ∧ assocGet? acc'.1 v = some nt) ∧
    (∀ w, w ∉ L → assocGet? acc'.1 w = assocGet? acc.1 w)
  | [], acc, acc', h => by
    simp only [List.foldlM_nil, pure, Except.pure, Except.ok.injEq] at h
    subst h; exact ⟨fun _ hv => (by cases hv), fun _ _ => rfl⟩
  | x :: xs, acc, acc', h => by
    rw [List.foldlM_cons] at h
    obtain ⟨a1, h1, h⟩ := bind_ok h
    obtain ⟨ih1, ih2⟩ := endFold nw s xs a1 acc' h
    obtain ⟨ntx, hspec, hset⟩ := endStep_ok h1
    constructor
    · intro v hv
      by_cases hm : v ∈ xs
      · exact ih1 v hm
      · have hvx : v = x := by
          cases hv with
          | head => rfl
          | tail _ h' => exact absurd h' hm
        subst hvx
        refine ⟨ntx, hspec, ?_⟩
        rw [ih2 v hm, hset, assocGet?_assocSet]; simp
    · intro w hw
      simp only [List.mem_cons, not_or] at hw
      rw [ih2 w hw.2, hset, assocGet?_assocSet]; simp [hw.1]

/-- the vehicles of every cycle in order, the lookup and the list of reusable empty cycles -/
def shape (tr : Transition) : List (List Veh) × List (Veh × Nat) × List Nat :=
  (tr.cycles.map (·.vehicles), tr.lookup, tr.empty)

/-- `update_vehicle` never moves a vehicle: only one counter and the totals change -/
theorem updateVehicle_shape {nw : Network} {tr tr' : Transition} {v : Veh} {nt : Tour} {upd old : Tours}
    (h : Transition.updateVehicle nw tr v nt upd old = .ok tr') : shape tr' = shape tr := by
  unfold Transition.updateVehicle at h
  obtain ⟨ot, _, h⟩ := bind_ok h
  obtain ⟨ci, _, h⟩ := bind_ok h
  obtain ⟨oc, hoc, h⟩ := bind_ok h
  have hoc := unwrapO_ok hoc
  dsimp only at h
  have key : ∃ nc : Int, tr' = { tr with
      cycles := tr.cycles.set ci { vehicles := oc.vehicles, counter := nc }
      totalViolation := (tr.totalViolation + posMax0 nc) - posMax0 oc.counter
      totalCounter := (tr.totalCounter + nc) - oc.counter } := by
    split at h
    · obtain ⟨nc, _, h⟩ := bind_ok h
      simp only [pure, Except.pure, Except.ok.injEq] at h
      exact ⟨nc, h.symm⟩
    · obtain ⟨⟨e, s⟩, _, h⟩ := bind_ok h
      obtain ⟨rem, _, h⟩ := bind_ok h
      obtain ⟨add, _, h⟩ := bind_ok h
      simp only [pure, Except.pure, bind, Except.bind, Except.ok.injEq] at h
      exact ⟨_, h.symm⟩
  obtain ⟨nc, rfl⟩ := key
  have hlt : ci < tr.cycles.length := (List.getElem?_eq_some_iff.mp hoc).1
  unfold shape
  simp only [Prod.mk.injEq, and_true]
  rw [List.map_set]
  apply List.ext_getElem?
  intro j
  rw [getElem?_set' _ _ _ _ (by simpa using hlt)]
  by_cases e : j = ci
  · subst e; simp [hoc]
  · simp [e]

/-- the batch update when every changed vehicle exists before and after: all cycles keep their
    vehicles (any other combination faults or is a dummy, which is skipped) -/
theorem updateTransitionsFast_shape (nw : Network) (s : Schedule) (tours : Tours) :
    ∀ (L : List Veh) (updated : Tours) (trans trans' : List (Nat × Transition)) (viol viol' : Int),
    Schedule.updateTransitionsFast nw s s.vehicles tours L updated trans viol = .ok (trans', viol') →
    ∀ vt, (assocGet? trans' vt).map shape = (assocGet? trans vt).map shape
  | [], updated, trans, trans', viol, viol', h, vt => by
    simp only [Schedule.updateTransitionsFast, pure, Except.pure, Except.ok.injEq, Prod.mk.injEq] at h
    rw [h.1]
  | v :: rest, updated, trans, trans', viol, viol', h, vt => by
    unfold Schedule.updateTransitionsFast at h
    split at h
    · exact updateTransitionsFast_shape nw s tours rest updated trans trans' viol viol' h vt
    · obtain ⟨vt0, _, h⟩ := bind_ok h
      obtain ⟨old, hold, h⟩ := bind_ok h
      have hold := unwrapO_ok hold
      dsimp only at h
      have hsame : s.isVehicle v = (assocGet? s.vehicles v).isSome := rfl
      cases hv : (assocGet? s.vehicles v).isSome with
      | false =>
        simp only [hsame, hv] at h
        simp [bind, Except.bind] at h
      | true =>
        simp only [hsame, hv] at h
        obtain ⟨nt, _, h⟩ := bind_ok h
        obtain ⟨tr, htr, h⟩ := bind_ok h
        have h : Schedule.updateTransitionsFast nw s s.vehicles tours rest (assocSet updated v nt)
            (assocSet trans vt0 tr) (viol + tr.totalViolation - old.totalViolation) = .ok (trans', viol') := h
        have ih := updateTransitionsFast_shape nw s tours rest _ _ trans' _ viol' h vt
        rw [ih, assocGet?_assocSet]
        by_cases e : vt = vt0
        · subst e; simp [hold, updateVehicle_shape htr]
        · simp [e]

/-- what `replace_end_depot` returns, at the level of nodes -/
theorem replaceEndDepot_nodes {nw : Network} {t t' : Tour} {d : Nat} (h : t.replaceEndDepot nw d = .ok t') :
    t'.nodes = t.nodes.set (t.nodes.length - 1) d ∧ 2 ≤ t.nodes.length ∧ (nw.node d).isEndDepot = true := by
  unfold Tour.replaceEndDepot at h
  split at h
  · cases h
  · split at h
    · cases h
    · rename_i hd
      split at h
      · cases h
      · rename_i hlen
        obtain ⟨old, _, h⟩ := bind_ok h
        dsimp only at h
        split at h
        · cases h
        · rename_i hei
          obtain ⟨lnd, _, h⟩ := bind_ok h
          have hn : t'.nodes = t.nodes.set (t.nodes.length - 1) d := by
            split at h
            · obtain ⟨dh, _, h⟩ := bind_ok h
              obtain ⟨c, _, h⟩ := bind_ok h
              simp only [pure, Except.pure, Except.ok.injEq] at h
              subst h; rfl
            · obtain ⟨x, _, h⟩ := bind_ok h
              obtain ⟨dh, _, h⟩ := bind_ok h
              obtain ⟨c, _, h⟩ := bind_ok h
              simp only [pure, Except.pure, Except.ok.injEq] at h
              subst h; rfl
          refine ⟨hn, ?_, by simpa using hd⟩
          simp only [beq_iff_eq] at hei hlen
          omega

theorem endDepot_after {nw : Network} {t t' : Tour} {d : Nat} (h : t.replaceEndDepot nw d = .ok t') :
    t'.endDepot nw = .ok d ∧ t'.startDepot nw = t.startDepot nw ∧
    t'.nodes.dropLast = t.nodes.dropLast := by
  obtain ⟨hn, hlen, hd⟩ := replaceEndDepot_nodes h
  have hl' : t'.nodes.length = t.nodes.length := by rw [hn]; simp
  refine ⟨?_, ?_, ?_⟩
  · unfold Tour.endDepot Tour.lastNode
    have : t'.nodes[t'.nodes.length - 1]? = some d := by
      rw [hl', hn, List.getElem?_set_self (by omega)]
    simp [idxAt, this, bind, Except.bind, hd, pure, Except.pure]
  · unfold Tour.startDepot Tour.firstNode
    have : t'.nodes[0]? = t.nodes[0]? := by
      rw [hn, List.getElem?_set_ne (by omega)]
    simp only [idxAt, this]
  · rw [hn, List.dropLast_eq_take, List.dropLast_eq_take, List.length_set, List.take_set_of_le (by omega)]

/-- **C05/C16 for the last stage**: tours of listed vehicles follow `EndSpec`, everything else that
    identifies the solution is untouched, rotation cycles keep their vehicles in order -/
theorem C05_reassign (nw : Network) (s s' : Schedule)
    (h : Schedule.reassignEndDepotsConsistent nw s = .ok s') :
    (∀ v ∈ s.vehiclesAll nw, ∃ nt, EndSpec nw s v nt ∧ assocGet? s'.tours v = some nt) ∧
    (∀ w, w ∉ s.vehiclesAll nw → assocGet? s'.tours w = assocGet? s.tours w) ∧
    s'.vehicles = s.vehicles ∧ s'.formations = s.formations ∧ s'.dummyTours = s.dummyTours ∧
    s'.idsByType = s.idsByType ∧ s'.dummyIds = s.dummyIds ∧ s'.unserved = s.unserved ∧
    (∀ vt, (assocGet? s'.transitions vt).map shape = (assocGet? s.transitions vt).map shape) := by
  have hunf : Schedule.reassignEndDepotsConsistent nw s = (do
      let (tours, usage, costs) ← (s.vehiclesAll nw).foldlM (endStep nw s) (s.tours, s.depotUsage, s.costs)
      let (trans, viol) ← Schedule.updateTransitionsFast nw s s.vehicles tours (s.vehiclesAll nw) [] s.transitions s.violation
      pure { s with tours, transitions := trans, depotUsage := usage, violation := viol, costs }) := rfl
  rw [hunf] at h
  obtain ⟨⟨tours, usage, costs⟩, hfold, h⟩ := bind_ok h
  dsimp only at h
  obtain ⟨⟨trans, viol⟩, htr, h⟩ := bind_ok h
  simp only [pure, Except.pure, Except.ok.injEq] at h
  subst h
  obtain ⟨f1, f2⟩ := endFold nw s _ _ _ hfold
  exact ⟨f1, f2, rfl, rfl, rfl, rfl, rfl, rfl, updateTransitionsFast_shape nw s tours _ _ _ _ _ _ htr⟩

theorem startDepot_isStart {nw : Network} {t : Tour} {sd : Nat} (h : t.startDepot nw = .ok sd) :
    (nw.node sd).isStartDepot = true := by
  unfold Tour.startDepot at h
  obtain ⟨f, _, h⟩ := bind_ok h
  split at h
  · rename_i hs
    simp only [pure, Except.pure, Except.ok.injEq] at h
    subst h; exact hs
  · cases h

/-- consequently every listed vehicle whose successor is listed too ends in the depot in which
    that successor starts — in the *result* (the successor's start depot is not moved by this stage).
    `hdep`: the end-depot node of a start depot's depot belongs to that depot (decidable on a
    network; evaluated by the driver on every network, STAT `c05.depotnodes`). -/
theorem C05_end_is_successors_start (nw : Network) (s s' : Schedule)
    (hdep : ∀ n, (nw.node n).isStartDepot = true →
      nw.depotIdxOf (nw.endDepotNodeOf (nw.depotIdxOf n)) = nw.depotIdxOf n)
    (h : Schedule.reassignEndDepotsConsistent nw s = .ok s') (v : Veh) (hv : v ∈ s.vehiclesAll nw) :
    ∃ vt tr next tv tn e sd, s.typeOf? v = some vt ∧ assocGet? s.transitions vt = some tr ∧
      Transition.successorOf tr v = .ok next ∧
      assocGet? s'.tours v = some tv ∧ tv.endDepot nw = .ok e ∧
      (next ∈ s.vehiclesAll nw → assocGet? s'.tours next = some tn ∧ tn.startDepot nw = .ok sd ∧
        nw.depotIdxOf e = nw.depotIdxOf sd) := by
  obtain ⟨f1, f2, _⟩ := C05_reassign nw s s' h
  obtain ⟨nt, ⟨t, vt, tr, next, ntour, sd, h1, h2, h3, h4, h5, h6, h7⟩, hget⟩ := f1 v hv
  obtain ⟨he, _, _⟩ := endDepot_after h7
  by_cases hn : next ∈ s.vehiclesAll nw
  · obtain ⟨ntn, ⟨t2, _, _, _, _, _, g1, _, _, _, _, _, g7⟩, hgetn⟩ := f1 next hn
    obtain ⟨_, hs2, _⟩ := endDepot_after g7
    rw [h5] at g1; cases g1
    refine ⟨vt, tr, next, nt, ntn, _, sd, h2, h3, h4, hget, he, fun _ => ⟨hgetn, ?_, hdep sd (startDepot_isStart h6)⟩⟩
    rw [hs2]; exact h6
  · exact ⟨vt, tr, next, nt, nt, _, sd, h2, h3, h4, hget, he, fun hc => absurd hc hn⟩

theorem depotNodes_sound (nw : Network) (h : Spec.depotNodesB nw = true) :
    ∀ n, (nw.node n).isStartDepot = true →
      nw.depotIdxOf (nw.endDepotNodeOf (nw.depotIdxOf n)) = nw.depotIdxOf n := by
  unfold Spec.depotNodesB at h
  simp only [Bool.and_eq_true, beq_iff_eq] at h
  obtain ⟨h1, h2⟩ := h
  have hall := List.all_eq_true.mp h1
  intro n hn
  by_cases hi : n < nw.nodes.size
  · have := hall n (by simp [Network.allIdx, hi])
    simp only [Bool.or_eq_true, Bool.not_eq_eq_eq_not, Bool.not_true, beq_iff_eq] at this
    rcases this with h0 | h0
    · rw [hn] at h0; cases h0
    · exact h0
  · have hd : nw.node n = default := by unfold Network.node; simp [Array.getD, hi]
    unfold Network.depotIdxOf
    rw [hd]; exact h2

end RSSched.C05
