/-
Props/C05Final: the schedule returned by the modelled pipeline (modelled transition optimiser) is
cyclically repeatable: every real vehicle ends its day in the depot in which its successor in its
rotation cycle starts — where the cycles are the ones stored in the returned schedule, they partition
the real vehicles per type (`C05_final_partition`), and the successor of a vehicle is a real vehicle
of the same type.
-/
import RSSched.Props.C10All
namespace RSSched.C05F
open RSSched Schedule Network Spec C15 C15N C10Cyc C10F C15Opt C10A

theorem successor_member {tr : Transition} {v next : Veh} (h : Transition.successorOf tr v = .ok next) :
    next ∈ members tr := by
  unfold Transition.successorOf at h
  obtain ⟨ci, hci, h⟩ := bind_ok h
  obtain ⟨cyc, hcyc, h⟩ := bind_ok h
  obtain ⟨pos, hpos, h⟩ := bind_ok h
  have hcyc := unwrapO_ok hcyc
  have h := unwrapO_ok h
  exact List.mem_flatMap.mpr ⟨cyc, List.mem_of_getElem? hcyc, List.mem_of_getElem? h⟩

theorem listed_of_typed {nw : Network} {s : Schedule} (hi : C10L.ListInv s) (hK : C10Lim.IdsIn nw s) {v : Veh} {vt : Nat}
    (hv : assocGet? s.vehicles v = some vt) : v ∈ s.vehiclesAll nw := by
  obtain ⟨l, hl, hvl⟩ := hi.complete v vt hv
  have hl' : assocGet? s.idsByType vt = some l := hl
  have hlt := hK vt (by rw [hl']; rfl)
  unfold Schedule.vehiclesAll
  refine List.mem_flatMap.mpr ⟨vt, by unfold Network.typeIdxs; exact List.mem_range.mpr hlt, ?_⟩
  unfold Schedule.vehiclesOfType
  rw [hl']; exact hvl

/-- **C05 (cyclically repeatable), modelled pipeline**: in the returned schedule every vehicle listed
    before the last stage ends in the depot where its successor in its rotation cycle starts; the
    successor is a real vehicle of the same type -/
theorem C05_final_repeatable (nw : Network) (hn : NetHyp nw) (hovf : C10Lim.OvfNode nw)
    (hdep : ∀ n, (nw.node n).isStartDepot = true →
      nw.depotIdxOf (nw.endDepotNodeOf (nw.depotIdxOf n)) = nw.depotIdxOf n)
    (o : Solve.Oracle) (p : Pick) (fuel : Nat) (ho : o.optimise = optimise nw p fuel) (tr : Solve.Trace)
    (h : Solve.solve nw o = .ok tr) (v : Veh) (hv : v ∈ tr.withTransitions.vehiclesAll nw) :
    ∃ vt t next tv tn e sd, tr.withTransitions.typeOf? v = some vt ∧
      assocGet? tr.withTransitions.transitions vt = some t ∧ Transition.successorOf t v = .ok next ∧
      assocGet? tr.withTransitions.vehicles next = some vt ∧
      assocGet? tr.final.tours v = some tv ∧ tv.endDepot nw = .ok e ∧
      assocGet? tr.final.tours next = some tn ∧ tn.startDepot nw = .ok sd ∧
      nw.depotIdxOf e = nw.depotIdxOf sd := by
  obtain ⟨_, i3, _⟩ := pipeline_all nw hn hovf o p fuel ho tr h
  unfold Solve.solve at h
  obtain ⟨flow, hf, h⟩ := bind_ok h
  obtain ⟨start, hs, h⟩ := bind_ok h
  dsimp only at h
  obtain ⟨final, hfin, h⟩ := bind_ok h
  simp only [pure, Except.pure, Except.ok.injEq] at h
  subst h
  dsimp only at i3 hv hfin ⊢
  generalize hsol : (if nw.maintNodes.isEmpty then start
      else (searchFuel Schedule.objective (Solve.nbrs nw o.limit o.threshold) o.fuel start).1) = sol at *
  -- the schedule that carries the optimised transitions satisfies the cycle clause
  have hcycT : CycInv nw (Schedule.setNextDayTransitions sol (o.optimise sol)) := by
    rw [ho]; exact optimise_cyc p fuel i3.obj.base.cycles
  have hiT : C10L.ListInv (Schedule.setNextDayTransitions sol (o.optimise sol)) := i3.obj.tours.listing
  have hKT : C10Lim.IdsIn nw (Schedule.setNextDayTransitions sol (o.optimise sol)) := i3.obj.base.base.keys
  obtain ⟨vt, t, next, tv, tn, e, sd, h1, h2, h3, h4, h5, h6⟩ :=
    C05.C05_end_is_successors_start nw _ final hdep hfin v hv
  obtain ⟨hc, hm⟩ := hcycT vt t h2
  have hnext : assocGet? (Schedule.setNextDayTransitions sol (o.optimise sol)).vehicles next = some vt :=
    (hm next).mp (successor_member h3)
  obtain ⟨g1, g2, g3⟩ := h6 (listed_of_typed hiT hKT hnext)
  exact ⟨vt, t, next, tv, tn, e, sd, h1, h2, h3, hnext, h4, h5, g1, g2, g3⟩

end RSSched.C05F
