/-
Props/C01Chain: the tours produced by the two node-changing tour modifications are connectable
chains (C01's "every consecutive pair is connectable", C10's tour clause), for the model and all
inputs: inserting a connectable path into a valid real tour, and removing a segment from a tour
whose consecutive nodes are connectable, yield tours whose consecutive nodes are connectable.
The insertion result is `kept prefix ++ path ++ kept suffix` (C12_insert); the two new links are
connectable because the prefix/suffix boundaries are *defined* by `can_reach`; the removal closes
its gap only after `can_reach` of the two neighbours was checked.
-/
import RSSched.Props.C12Insert
import RSSched.Props.C09Insert
namespace RSSched.C01
open RSSched Network Tour Spec

/-- link condition between two optional neighbours -/
def linkOK (nw : Network) : Option Nat → Option Nat → Bool
  | some a, some b => nw.canReach a b
  | _, _ => true

theorem chainB_append (nw : Network) (l1 l2 : List Nat) :
    chainB nw (l1 ++ l2) = (chainB nw l1 && linkOK nw l1.getLast? l2.head? && chainB nw l2) := by
  unfold chainB
  rw [pairs_append, List.all_append, List.all_append]
  congr 2
  cases l1.getLast? <;> cases l2.head? <;> simp [connPairs, linkOK]

theorem chainB_take (nw : Network) (l : List Nat) (k : Nat) (h : chainB nw l = true) : chainB nw (l.take k) = true := by
  have := chainB_append nw (l.take k) (l.drop k)
  rw [List.take_append_drop, h] at this
  have h' : (chainB nw (l.take k) && linkOK nw (l.take k).getLast? (l.drop k).head? && chainB nw (l.drop k)) = true := this.symm
  simp only [Bool.and_eq_true] at h'; exact h'.1.1

theorem chainB_drop (nw : Network) (l : List Nat) (k : Nat) (h : chainB nw l = true) : chainB nw (l.drop k) = true := by
  have := chainB_append nw (l.take k) (l.drop k)
  rw [List.take_append_drop, h] at this
  have h' : (chainB nw (l.take k) && linkOK nw (l.take k).getLast? (l.drop k).head? && chainB nw (l.drop k)) = true := this.symm
  simp only [Bool.and_eq_true] at h'; exact h'.2

theorem getLast?_take (l : List Nat) (k : Nat) (h1 : 0 < k) (h2 : k ≤ l.length) :
    (l.take k).getLast? = some (l.getD (k - 1) 0) := by
  rw [List.getLast?_eq_getElem?, List.getElem?_take]
  have hl : (l.take k).length = k := by simp; omega
  rw [hl, if_pos (by omega)]
  rw [List.getD_eq_getElem?_getD, List.getElem?_eq_getElem (by omega)]; rfl

theorem head?_drop (l : List Nat) (m : Nat) (h : m < l.length) : (l.drop m).head? = some (l.getD m 0) := by
  rw [List.head?_eq_getElem?, List.getElem?_drop]
  simp only [Nat.add_zero]
  rw [List.getD_eq_getElem?_getD, List.getElem?_eq_getElem h]; rfl

/-- the reference result of an insertion is a chain whenever tour and path are -/
theorem chain_insertRef (nw : Network) (nodes p : List Nat) (hp : p ≠ [])
    (hn : chainB nw nodes = true) (hpc : chainB nw p = true) :
    let first := p.headD 0
    let last := p.getLastD 0
    let k := if (nw.node first).isDepot then 0 else keepPrefixLen nw nodes first
    let m := if (nw.node last).isDepot then nodes.length else keepSuffixStart nw nodes last
    chainB nw (nodes.take k ++ p ++ nodes.drop m) = true := by
  intro first last k m
  have hhead : p.head? = some first := by
    cases p with
    | nil => exact absurd rfl hp
    | cons a as => rfl
  have hlast : (nodes.take k ++ p).getLast? = some last := by
    rw [List.getLast?_append]
    cases hl : p.getLast? with
    | none => simp [List.getLast?_eq_none_iff] at hl; exact absurd hl hp
    | some x =>
      simp only [Option.some_or]
      congr 1
      show x = p.getLastD 0
      rw [List.getLastD_eq_getLast?, hl]; rfl
  -- link into the path
  have l1 : linkOK nw (nodes.take k).getLast? p.head? = true := by
    rw [hhead]
    by_cases hk : k = 0
    · rw [hk]; simp [linkOK]
    · have hkpos : 0 < k := Nat.pos_of_ne_zero hk
      have hkdef : k = keepPrefixLen nw nodes first := by
        by_cases hdep : (nw.node first).isDepot = true
        · exact absurd (by simp only [k, hdep, ↓reduceIte]) hk
        · simp only [k, hdep, Bool.false_eq_true, ↓reduceIte]
      have hkle : k ≤ nodes.length := by rw [hkdef]; exact lastTrueLen_le _ _
      rw [getLast?_take nodes k hkpos hkle]
      simp only [linkOK]
      have := lastTrueLen_true (reachesAt nw nodes first) nodes.length (by rw [← keepPrefixLen, ← hkdef]; exact hkpos)
      rw [← keepPrefixLen, ← hkdef] at this
      exact this
  -- link out of the path
  have l2 : linkOK nw (nodes.take k ++ p).getLast? (nodes.drop m).head? = true := by
    rw [hlast]
    by_cases hm : m < nodes.length
    · have hmdef : m = keepSuffixStart nw nodes last := by
        by_cases hdep : (nw.node last).isDepot = true
        · have : m = nodes.length := by simp only [m, hdep, ↓reduceIte]
          omega
        · simp only [m, hdep, Bool.false_eq_true, ↓reduceIte]
      rw [head?_drop nodes m hm]
      simp only [linkOK]
      have := firstTrueFrom_true (reachedAt nw nodes last) nodes.length 0 (by
        rw [← keepSuffixStart, ← hmdef]; omega)
      rw [← keepSuffixStart, ← hmdef] at this
      exact this
    · have : nodes.drop m = [] := List.drop_eq_nil_of_le (by omega)
      rw [this]; simp [linkOK]
  rw [chainB_append, chainB_append, chainB_take nw nodes k hn, hpc, chainB_drop nw nodes m hn, l1, l2]
  rfl

/-- **C01 for insertion**: inserting a connectable path into a valid real tour gives a tour whose
    consecutive nodes are all connectable -/
theorem C01_insert_chain (nw : Network) (hd : C17.DepotTimes nw) (hw : NodesWF' nw) (t t' : Tour)
    (path : List Nat) (rm : Option (List Nat)) (hv : tourValidB nw t = true) (hreal : t.isDummy = false)
    (hpc : chainB nw path = true) (h : insertPath nw true t path = .ok (t', rm)) :
    chainB nw t'.nodes = true := by
  have hspec := C12.C12_insert nw hd hw t path hv t' rm h
  unfold insertSpecB insertRef at hspec
  simp only [Bool.and_eq_true, beq_iff_eq] at hspec
  have hstrip : stripForDummy nw t.isDummy path = path := by simp [stripForDummy, hreal]
  have hne : path ≠ [] := by
    intro e; subst e
    simp [insertPath, insertPlan, stripFirst, stripLast, hreal, idxAt, bind, Except.bind] at h
  have hchain : chainB nw t.nodes = true := by
    unfold tourValidB at hv
    simp only [hreal, Bool.false_eq_true, ↓reduceIte, Bool.and_eq_true] at hv
    exact hv.1.2
  rw [hspec.1, hstrip]
  exact chain_insertRef nw t.nodes path hne hchain hpc

/-- the neighbours of a removable slice are connectable (what `check_if_sequence_is_removable`
    guarantees before `remove` closes the gap) -/
theorem checkSeqRemovable_gap {nw : Network} {t : Tour} {s e : Nat} (h : checkSeqRemovable nw t s e = .ok ())
    (hs : 0 < s) (he : e < t.nodes.length - 1) :
    nw.canReach (t.nodes.getD (s - 1) 0) (t.nodes.getD (e + 1) 0) = true := by
  unfold checkSeqRemovable at h
  dsimp only at h
  split at h
  · cases h
  · split at h
    · cases h
    · split at h
      · cases h
      · split at h
        · cases h
        · split at h
          · obtain ⟨a, ha, h⟩ := C09.bindR_inv h
            obtain ⟨b, hb, h⟩ := C09.bindR_inv h
            have ha' := C09.idxAt_inv ha
            have hb' := C09.idxAt_inv hb
            split at h
            · cases h
            · rename_i hr
              rw [List.getD_eq_getElem?_getD, List.getD_eq_getElem?_getD, ha', hb']
              simpa using hr
          · rename_i hc
            exfalso; apply hc
            simp only [Bool.and_eq_true, decide_eq_true_eq]; exact ⟨hs, he⟩

/-- **C01 for removal**: what is left of a chain after `Tour::remove` is a chain -/
theorem C01_remove_chain (nw : Network) (t t' : Tour) (a b : Nat) (path : List Nat)
    (hc : chainB nw t.nodes = true) (h : Tour.remove nw t a b = .ok (some t', path)) :
    chainB nw t'.nodes = true := by
  unfold Tour.remove at h
  obtain ⟨s, _, h⟩ := C09.bindR_inv h
  obtain ⟨e, _, h⟩ := C09.bindR_inv h
  obtain ⟨u, hchk, h⟩ := C09.bindR_inv h
  obtain ⟨removed, hrem, h⟩ := C09.bindR_inv h
  obtain ⟨ud, _, h⟩ := C09.bindR_inv h
  obtain ⟨sd, _, h⟩ := C09.bindR_inv h
  obtain ⟨seg, _, h⟩ := C09.bindR_inv h
  obtain ⟨dh0, _, h⟩ := C09.bindR_inv h
  obtain ⟨gapD, _, h⟩ := C09.bindR_inv h
  obtain ⟨cseg, _, h⟩ := C09.bindR_inv h
  obtain ⟨c0, _, h⟩ := C09.bindR_inv h
  obtain ⟨gapC, _, h⟩ := C09.bindR_inv h
  obtain ⟨h1, h2, _⟩ := C09.slice_inv hrem
  have hnodes : t'.nodes = t.nodes.take s ++ t.nodes.drop (e + 1) := by
    dsimp only at h
    split at h
    · split at h
      · simp [pure, Except.pure] at h
      · simp only [pure, Except.pure, Except.ok.injEq, Prod.mk.injEq, Option.some.injEq] at h
        rw [← h.1]
    · cases h
  rw [hnodes, chainB_append, chainB_take nw _ s hc, chainB_drop nw _ (e + 1) hc]
  have hl : linkOK nw (t.nodes.take s).getLast? (t.nodes.drop (e + 1)).head? = true := by
    by_cases hs : s = 0
    · rw [hs]; simp [linkOK]
    · by_cases he : e + 1 < t.nodes.length
      · rw [getLast?_take _ s (by omega) (by omega), head?_drop _ _ he]
        simp only [linkOK]
        exact checkSeqRemovable_gap (by cases u; exact hchk) (by omega) (by omega)
      · have : t.nodes.drop (e + 1) = [] := List.drop_eq_nil_of_le (by omega)
        rw [this]; cases (t.nodes.take s).getLast? <;> simp [linkOK]
  rw [hl]; rfl

end RSSched.C01
