/-
Props/C14: the start solution is an optimum of the per-type covering circulation.

* `checkB` is the certificate checker the driver runs on every real flow: feasibility (bounds,
  conservation) and the reduced-cost optimality conditions for given node potentials.
* `C14_cert`: if `checkB` accepts, the flow costs no more than ANY feasible circulation of the same
  network (all circulations, not a sample) — `FlowCert.cert_sound`.
* `C14_lex`: a flow that is optimal for the vehicle count (cost 1 on depot arcs) and for the
  solver's cost (spawning cost on depot arcs + operating costs) uses the minimum number of vehicles
  and, among the circulations with that number of vehicles, has minimum operating cost.
The potentials are computed outside Lean (Bellman–Ford in the harness) and are only checked.
-/
import RSSched.Lemmas.FlowCert
import RSSched.Model.Flow
namespace RSSched.C14
open RSSched FlowCert

def flowFn (fl : List Int) : Nat → Int := fun i => fl.getD i 0
def potFn (pot : List (Nat × Int)) : Nat → Int := fun v => (assocGet? pot v).getD 0

/-- indexed `all` over an arc list -/
def allFrom : List Arc → Nat → (Nat → Arc → Bool) → Bool
  | [], _, _ => true
  | a :: as, k, p => p k a && allFrom as (k + 1) p

theorem allFrom_spec (A : List Arc) (k : Nat) (p : Nat → Arc → Bool) (h : allFrom A k p = true) :
    ∀ j a, A[j]? = some a → p (k + j) a = true := by
  induction A generalizing k with
  | nil => intro j a hj; simp at hj
  | cons x xs ih =>
    simp only [allFrom, Bool.and_eq_true] at h
    intro j a hj
    cases j with
    | zero => simp at hj; subst hj; simpa using h.1
    | succ j' =>
      have := ih (k + 1) h.2 j' a (by simpa using hj)
      have e : k + 1 + j' = k + (j' + 1) := by omega
      rw [e] at this; exact this

/-- the certificate checker -/
def checkB (V : List Nat) (A : List Arc) (fl : List Int) (pot : List (Nat × Int)) : Bool :=
  let f := flowFn fl
  let π := potFn pot
  allFrom A 0 (fun i a => decide (a.lb ≤ f i) && decide (f i ≤ a.ub)) &&
  V.all (fun v => decide (outflow A f v = inflow A f v)) &&
  allFrom A 0 (fun i a =>
    (decide (redCost π a ≤ 0) || decide (f i = a.lb)) && (decide (0 ≤ redCost π a) || decide (f i = a.ub)))

theorem checkB_feasible (V : List Nat) (A : List Arc) (fl : List Int) (pot : List (Nat × Int))
    (h : checkB V A fl pot = true) : Feasible V A (flowFn fl) := by
  unfold checkB at h
  simp only [Bool.and_eq_true] at h
  obtain ⟨⟨h1, h2⟩, _⟩ := h
  constructor
  · intro i a hi
    have := allFrom_spec A 0 _ h1 i a hi
    simp only [Nat.zero_add, Bool.and_eq_true, decide_eq_true_eq] at this
    exact this
  · intro v hv
    have := List.all_eq_true.mp h2 v hv
    simpa using this

theorem checkB_opt (V : List Nat) (A : List Arc) (fl : List Int) (pot : List (Nat × Int))
    (h : checkB V A fl pot = true) : OptCond A (potFn pot) (flowFn fl) := by
  unfold checkB at h
  simp only [Bool.and_eq_true] at h
  obtain ⟨_, h3⟩ := h
  intro i a hi
  have := allFrom_spec A 0 _ h3 i a hi
  simp only [Nat.zero_add, Bool.and_eq_true, Bool.or_eq_true, decide_eq_true_eq] at this
  constructor
  · intro hpos
    rcases this.1 with h' | h'
    · omega
    · exact h'
  · intro hneg
    rcases this.2 with h' | h'
    · omega
    · exact h'

/-- **C14_cert**: an accepted certificate proves optimality against every feasible circulation -/
theorem C14_cert (V : List Nat) (hV : V.Nodup) (A : List Arc) (hA : ∀ a ∈ A, a.src ∈ V ∧ a.dst ∈ V)
    (fl : List Int) (pot : List (Nat × Int)) (h : checkB V A fl pot = true) :
    Feasible V A (flowFn fl) ∧ ∀ f', Feasible V A f' → cost A (flowFn fl) ≤ cost A f' := by
  refine ⟨checkB_feasible V A fl pot h, fun f' hf' => ?_⟩
  exact cert_sound V hV A hA (potFn pot) (flowFn fl) f' (checkB_feasible V A fl pot h) hf' (checkB_opt V A fl pot h)

/-- the same arcs with another cost vector -/
def recost (A : List Arc) (c : Arc → Int) : List Arc := A.map (fun a => { a with cost := c a })

theorem recost_getElem? (A : List Arc) (c : Arc → Int) (i : Nat) :
    (recost A c)[i]? = (A[i]?).map (fun a => { a with cost := c a }) := by
  simp [recost]

theorem sumFrom_recost (A : List Arc) (c : Arc → Int) (k : Nat) (g : Nat → Arc → Int)
    (hg : ∀ i a, g i { a with cost := c a } = g i a) :
    sumFrom (recost A c) k g = sumFrom A k g := by
  induction A generalizing k with
  | nil => rfl
  | cons a as ih =>
    simp only [recost, List.map_cons, sumFrom]
    rw [hg]
    have := ih (k + 1)
    simp only [recost] at this
    rw [this]

/-- feasibility does not depend on the costs -/
theorem feasible_recost (V : List Nat) (A : List Arc) (c : Arc → Int) (f : Nat → Int) :
    Feasible V (recost A c) f ↔ Feasible V A f := by
  constructor
  · intro h
    constructor
    · intro i a hi
      have := h.bounds i { a with cost := c a } (by rw [recost_getElem?, hi]; rfl)
      exact this
    · intro v hv
      have := h.conserve v hv
      unfold outflow inflow at this ⊢
      rw [sumFrom_recost _ _ _ _ (by intros; rfl), sumFrom_recost _ _ _ _ (by intros; rfl)] at this
      exact this
  · intro h
    constructor
    · intro i a hi
      rw [recost_getElem?] at hi
      cases ha : A[i]? with
      | none => simp [ha] at hi
      | some a0 =>
        simp only [ha, Option.map_some, Option.some.injEq] at hi
        subst hi
        exact h.bounds i a0 ha
    · intro v hv
      have := h.conserve v hv
      unfold outflow inflow at this ⊢
      rw [sumFrom_recost _ _ _ _ (by intros; rfl), sumFrom_recost _ _ _ _ (by intros; rfl)]
      exact this

/-- **C14_lex**: optimal for the vehicle count and for the total cost ⇒ minimum vehicles, and
    minimum operating cost among all circulations with that many vehicles.
    `veh` marks the depot arcs; total cost = `M · vehicles + operating cost`. -/
theorem C14_lex (V : List Nat) (A : List Arc) (veh : Arc → Int) (M : Int) (f : Nat → Int)
    (hveh : ∀ g, Feasible V A g → cost (recost A veh) f ≤ cost (recost A veh) g)
    (htot : ∀ g, Feasible V A g → cost A f ≤ cost A g) :
    ∀ g, Feasible V A g →
      cost (recost A veh) f ≤ cost (recost A veh) g ∧
      (cost (recost A veh) g = cost (recost A veh) f →
        cost A f - M * cost (recost A veh) f ≤ cost A g - M * cost (recost A veh) g) := by
  intro g hg
  refine ⟨hveh g hg, fun he => ?_⟩
  have := htot g hg
  rw [he]; omega

/-! ### non-vacuity: a two-node cycle with one cheap and one expensive arc -/
def demoA : List Arc := [⟨0, 1, 1, 3, 5⟩, ⟨1, 0, 0, 3, 2⟩, ⟨1, 0, 0, 3, 9⟩]

example : checkB [0, 1] demoA [1, 1, 0] [(0, 2), (1, 0)] = true := by decide
example : checkB [0, 1] demoA [1, 0, 1] [(0, 2), (1, 0)] = false := by decide

end RSSched.C14
