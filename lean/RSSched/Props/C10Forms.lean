/-
Props/C10Forms: the formation-membership clause of C10 (and the view agreement of C03) for the
model, every history: in every schedule reachable from the empty schedule by public modifications,
for every node `n` and every vehicle `v`

    #occurrences of v in formation(n)  =  #occurrences of n among the activities of v's tour

(0 when `v` has no tour). With duplicate-free tours (chains of positive-length activities) this is
"v is listed in the formation of n exactly once iff n is on v's itinerary, and never otherwise".
The counting form makes the transient states inside one modification unproblematic (a receiver that
already serves a moved node is listed twice until its displaced nodes are taken out again).

Built on `C13.updateTrainFormation_count` (effect of `update_train_formation` in counting form) and
on the node-list facts of the tour modifications (`insertRef`, the slice of `remove`).
-/
import RSSched.Props.C13Formation
import RSSched.Props.C10Tours
namespace RSSched.C10F
open RSSched Schedule Network Tour Spec C15 C02 C13 C10T C10L C09C C10S

/-! ### counting nodes on tours -/

/-- how often `n` occurs among the activities of `v`'s tour in the tour map `T` -/
def tourOcc (nw : Network) (T : Tours) (v : Veh) (n : Nat) : Nat :=
  match assocGet? T v with
  | some t => occ nw t.nodes n
  | none => 0

/-- **formation membership, counting form** -/
def FormCount (nw : Network) (T : Tours) (forms : List (Nat × List Veh)) : Prop :=
  ∀ n v, (formOf forms n).count v = tourOcc nw T v n

theorem occ_append (nw : Network) (a b : List Nat) (n : Nat) : occ nw (a ++ b) n = occ nw a n + occ nw b n := by
  unfold occ; rw [List.filter_append, List.count_append]

theorem occ_nil (nw : Network) (n : Nat) : occ nw [] n = 0 := rfl

theorem occ_zero_of_depots (nw : Network) (l : List Nat) (n : Nat) (h : ∀ x ∈ l, (nw.node x).isDepot = true) :
    occ nw l n = 0 := by
  unfold occ
  have : l.filter (fun x => !(nw.node x).isDepot) = [] := by
    rw [List.filter_eq_nil_iff]; intro x hx; simp [h x hx]
  rw [this]; rfl

theorem occ_of_no_nonDepot (nw : Network) (l : List Nat) (n : Nat) (h : hasNonDepot nw l = false) :
    occ nw l n = 0 := by
  apply occ_zero_of_depots
  intro x hx
  unfold hasNonDepot at h
  rw [List.any_eq_false] at h
  have := h x hx
  simpa using this

theorem occ_set_depot (nw : Network) (l : List Nat) (i d n : Nat) (hd : (nw.node d).isDepot = true)
    (hold : ∀ x, l[i]? = some x → (nw.node x).isDepot = true) : occ nw (l.set i d) n = occ nw l n := by
  induction l generalizing i with
  | nil => simp
  | cons a as ih =>
    cases i with
    | zero =>
      have ha := hold a (by simp)
      simp only [List.set_cons_zero]
      rw [occ_cons_depot nw d as n hd, occ_cons_depot nw a as n ha]
    | succ j =>
      simp only [List.set_cons_succ]
      have := ih j (fun x hx => hold x (by simpa using hx))
      by_cases hda : (nw.node a).isDepot = true
      · rw [occ_cons_depot nw a _ n hda, occ_cons_depot nw a _ n hda, this]
      · have hda' : (nw.node a).isDepot = false := by simpa using hda
        rw [occ_cons_act nw a _ n hda', occ_cons_act nw a _ n hda', this]

theorem take_drop_split (l : List Nat) (s e : Nat) (hse : s ≤ e) :
    l = l.take s ++ (l.drop s).take (e - s) ++ l.drop e := by
  have h1 : l = l.take s ++ l.drop s := (List.take_append_drop s l).symm
  have h2 : l.drop s = (l.drop s).take (e - s) ++ (l.drop s).drop (e - s) := (List.take_append_drop _ _).symm
  have h3 : (l.drop s).drop (e - s) = l.drop e := by rw [List.drop_drop]; congr 1; omega
  rw [h3] at h2
  conv => lhs; rw [h1, h2]
  rw [List.append_assoc]

theorem tourOcc_set (nw : Network) (T : Tours) (v w : Veh) (t : Tour) (n : Nat) :
    tourOcc nw (assocSet T v t) w n = if w = v then occ nw t.nodes n else tourOcc nw T w n := by
  unfold tourOcc; rw [assocGet?_assocSet]
  by_cases e : w = v <;> simp [e]

theorem tourOcc_erase (nw : Network) (T : Tours) (v w : Veh) (n : Nat) :
    tourOcc nw (assocErase T v) w n = if w = v then 0 else tourOcc nw T w n := by
  unfold tourOcc; rw [assocGet?_assocErase]
  by_cases e : w = v <;> simp [e]

theorem tourOcc_of_get {nw : Network} {T : Tours} {v : Veh} {t : Tour} (h : assocGet? T v = some t) (n : Nat) :
    tourOcc nw T v n = occ nw t.nodes n := by unfold tourOcc; rw [h]

theorem tourOcc_of_none {nw : Network} {T : Tours} {v : Veh} (h : assocGet? T v = none) (n : Nat) :
    tourOcc nw T v n = 0 := by unfold tourOcc; rw [h]

theorem ind_mul (p : Prop) [Decidable p] (k : Nat) : ind p * k = if p then k else 0 := by
  unfold ind; split <;> simp

/-! ### node lists of the tour modifications -/

/-- `Tour::remove`: the tour is `take s ++ removed ++ drop (e+1)`, the remaining tour (if one
    remains) is `take s ++ drop (e+1)` -/
theorem remove_split {nw : Network} {t : Tour} {a b : Nat} {ot : Option Tour} {path : List Nat}
    (h : Tour.remove nw t a b = .ok (ot, path)) :
    ∃ s e, checkSeqRemovable nw t s e = .ok () ∧ e + 1 ≤ t.nodes.length ∧
      t.nodes = t.nodes.take s ++ path ++ t.nodes.drop (e + 1) ∧
      (∀ t', ot = some t' → t'.nodes = t.nodes.take s ++ t.nodes.drop (e + 1)) ∧
      (ot = none → (t.nodes.take s ++ t.nodes.drop (e + 1) = [] ∨
         (t.isDummy = false ∧ (t.nodes.take s ++ t.nodes.drop (e + 1)).length ≤ 2))) := by
  unfold Tour.remove at h
  obtain ⟨s, hs, h⟩ := C09.bindR_inv h
  obtain ⟨e, he, h⟩ := C09.bindR_inv h
  obtain ⟨u, hchk, h⟩ := C09.bindR_inv h
  obtain ⟨removed, hrem, h⟩ := C09.bindR_inv h
  obtain ⟨ud, _, h⟩ := C09.bindR_inv h
  obtain ⟨sd', _, h⟩ := C09.bindR_inv h
  obtain ⟨seg, _, h⟩ := C09.bindR_inv h
  obtain ⟨dh0, _, h⟩ := C09.bindR_inv h
  obtain ⟨gapD, _, h⟩ := C09.bindR_inv h
  obtain ⟨cseg, _, h⟩ := C09.bindR_inv h
  obtain ⟨c0, _, h⟩ := C09.bindR_inv h
  obtain ⟨gapC, _, h⟩ := C09.bindR_inv h
  have hchk' : checkSeqRemovable nw t s e = .ok () := by cases u; exact hchk
  obtain ⟨h1, h2, hremeq⟩ := C09.slice_inv hrem
  have hsplit := take_drop_split t.nodes s (e + 1) h1
  rw [← hremeq] at hsplit
  dsimp only at h
  split at h
  · rename_i path' hpt
    have hpath : path' = removed := by
      unfold pathTrusted at hpt
      split at hpt
      · cases hpt
      · simpa using hpt.symm
    subst hpath
    split at h
    · rename_i hcond
      simp only [pure, Except.pure, Except.ok.injEq, Prod.mk.injEq] at h
      obtain ⟨h3, h4⟩ := h
      subst h3; subst h4
      refine ⟨s, e, hchk', h2, hsplit, fun t' ht' => (by cases ht'), fun _ => ?_⟩
      simp only [Bool.or_eq_true, List.isEmpty_iff, Bool.and_eq_true, Bool.not_eq_true', decide_eq_true_eq] at hcond
      rcases hcond with hc | hc
      · exact Or.inl hc
      · exact Or.inr ⟨hc.1, hc.2⟩
    · simp only [pure, Except.pure, Except.ok.injEq, Prod.mk.injEq] at h
      obtain ⟨h3, h4⟩ := h
      subst h3; subst h4
      exact ⟨s, e, hchk', h2, hsplit, fun t' ht' => (by cases ht'; rfl), fun hn => (by cases hn)⟩
  · cases h

/-- a real tour of valid shape from which `remove` leaves no tour has lost all its activities -/
theorem remove_none_occ {nw : Network} {t : Tour} {a b : Nat} {path : List Nat}
    (ht : TourOK nw t) (h : Tour.remove nw t a b = .ok (none, path)) (n : Nat) :
    occ nw t.nodes n = occ nw path n := by
  obtain ⟨s, e, hchk, he, hsp, _, hnone⟩ := remove_split h
  obtain ⟨sd, mid, ed, hl, hsd, hed, hmid, hmidnd⟩ := ht.shape
  obtain ⟨hlen3, hn1, hn2⟩ := C12.checkSeqRemovable_real hchk ht.real
  have hsdD : (nw.node sd).isDepot = true := by simp [Node.isDepot, hsd]
  have hedD : (nw.node ed).isDepot = true := by simp [Node.isDepot, hed]
  have hn : t.nodes.length = mid.length + 2 := by rw [hl]; simp
  have hmidpos : 0 < mid.length := List.length_pos_iff.mpr hmid
  have hdep : ∀ x ∈ t.nodes.take s ++ t.nodes.drop (e + 1), (nw.node x).isDepot = true := by
    rcases hnone rfl with he0 | ⟨_, hlen⟩
    · rw [he0]; intro x hx; cases hx
    · simp only [List.length_append, List.length_take, List.length_drop] at hlen
      -- s ≤ 1 and e + 1 ≥ n - 1
      have hs1 : s ≤ 1 := by
        by_cases h2s : 2 ≤ s
        · exfalso
          have : e = t.nodes.length - 1 := by omega
          exact hn2 ⟨this, h2s⟩
        · omega
      have he1 : mid.length + 1 ≤ e + 1 := by
        by_cases hc : e + 1 ≤ mid.length
        · exfalso
          have hs0 : s = 0 := by omega
          exact hn1 ⟨hs0, by omega⟩
        · omega
      intro x hx
      rcases List.mem_append.mp hx with hxp | hxs
      · have : x ∈ (sd :: (mid ++ [ed])).take 1 := by
          rw [← hl]
          exact List.mem_of_mem_take (by
            have : t.nodes.take s = (t.nodes.take 1).take s := by rw [List.take_take]; congr 1; omega
            rw [this] at hxp; exact hxp)
        simp at this; rw [this]; exact hsdD
      · have hsub : x ∈ t.nodes.drop (mid.length + 1) := by
          have : t.nodes.drop (e + 1) = (t.nodes.drop (mid.length + 1)).drop (e + 1 - (mid.length + 1)) := by
            rw [List.drop_drop]; congr 1; omega
          rw [this] at hxs; exact List.mem_of_mem_drop hxs
        rw [hl] at hsub
        have : (sd :: (mid ++ [ed])).drop (mid.length + 1) = [ed] := by simp
        rw [this] at hsub; simp at hsub; rw [hsub]; exact hedD
  rw [hsp, occ_append, occ_append]
  have h1 : occ nw (t.nodes.take s) n = 0 := occ_zero_of_depots nw _ n (fun x hx => hdep x (by simp [hx]))
  have h2 : occ nw (t.nodes.drop (e + 1)) n = 0 := occ_zero_of_depots nw _ n (fun x hx => hdep x (by simp [hx]))
  omega

theorem remove_some_occ {nw : Network} {t t' : Tour} {a b : Nat} {path : List Nat}
    (h : Tour.remove nw t a b = .ok (some t', path)) (n : Nat) :
    occ nw t.nodes n = occ nw t'.nodes n + occ nw path n := by
  obtain ⟨s, e, _, _, hsp, hsome, _⟩ := remove_split h
  rw [hsome t' rfl]
  conv => lhs; rw [hsp]
  rw [occ_append, occ_append, occ_append]; omega

theorem isActivity_of_not_depot {nw : Network} {x : Nat} (h : (nw.node x).isDepot = false) :
    isActivity (nw.node x) = true := by
  unfold isActivity Node.isService Node.isMaint
  unfold Node.isDepot Node.isStartDepot Node.isEndDepot at h
  cases hk : (nw.node x).kind <;> simp [hk] at h ⊢

/-- `Tour::insert_path` into a real tour of valid shape: counted over activities, the new tour plus
    the reported dropped nodes is the old tour plus the path -/
theorem insert_occ (nw : Network) (hd : C17.DepotTimes nw) (hw : NodesWF' nw) (hap : C12.ActPos nw)
    (t t' : Tour) (path : List Nat) (rm : Option (List Nat)) (ht : TourOK nw t) (hp : PathOK nw path)
    (h : insertPath nw true t path = .ok (t', rm)) (n : Nat) :
    occ nw t'.nodes n + occ nw (rm.getD []) n = occ nw t.nodes n + occ nw path n := by
  have hc := C12.timeChain_of_chainB nw hd t.nodes ht.chain
  have hne : 0 < t.nodes.length := by have := shape_len ht.shape; omega
  unfold insertPath at h
  obtain ⟨pl, hpl, h⟩ := C12.bind_ok h
  obtain ⟨c, _, h⟩ := C12.bind_ok h
  simp only [pure, Except.pure, Except.ok.injEq, Prod.mk.injEq] at h
  obtain ⟨ht', hrm⟩ := h
  obtain ⟨_, h2, h3⟩ := C12.plan_inv nw hd hw t path hc hne pl hpl
  rw [ht.real] at h2 h3
  have hnodes : t'.nodes = (insertRef nw false t.nodes path).1 := by rw [← ht']; exact h2
  have hrmocc : occ nw (rm.getD []) n = occ nw (insertRef nw false t.nodes path).2 n := by
    rw [← hrm, C12.pathTrusted_eq, h3]
    split
    · rfl
    · rename_i hnd
      simp only [Option.getD_none]
      rw [occ_nil, occ_of_no_nonDepot nw _ n (by simpa using hnd)]
  rw [hnodes, hrmocc]
  obtain ⟨w, hwp, hwnd⟩ := (hasNonDepot_iff nw path).mp hp.act
  have hpne : path ≠ [] := by intro e; subst e; cases hwp
  have hplen : 0 < path.length := List.length_pos_iff.mpr hpne
  unfold insertRef
  simp only [stripForDummy, Bool.not_false, ↓reduceIte]
  generalize hk : (if (nw.node (path.headD 0)).isDepot = true then 0 else keepPrefixLen nw t.nodes (path.headD 0)) = k
  generalize hm : (if (nw.node (path.getLastD 0)).isDepot = true then t.nodes.length
      else keepSuffixStart nw t.nodes (path.getLastD 0)) = m
  have hkm : k ≤ m := by
    by_cases hfd : (nw.node (path.headD 0)).isDepot = true
    · simp only [hfd, ↓reduceIte] at hk; omega
    · by_cases hld : (nw.node (path.getLastD 0)).isDepot = true
      · simp only [hld, ↓reduceIte] at hm
        simp only [hfd, Bool.false_eq_true, ↓reduceIte] at hk
        rw [← hk, ← hm]; exact lastTrueLen_le _ _
      · simp only [hfd, Bool.false_eq_true, ↓reduceIte] at hk
        simp only [hld, Bool.false_eq_true, ↓reduceIte] at hm
        rw [← hk, ← hm]
        have hpc := C12.timeChain_of_chainB nw hd path hp.chain
        have hmono := monoEnd_of_timeChain nw hw path hpc
        have hfl := hmono 0 (path.length - 1) (by omega) (by omega)
        have e1 : path.headD 0 = path.getD 0 0 := by
          cases path with
          | nil => rfl
          | cons a as => rfl
        have e2 : path.getLastD 0 = path.getD (path.length - 1) 0 := by
          rw [List.getLastD_eq_getLast?, List.getLast?_eq_getElem?, List.getD_eq_getElem?_getD]
        rw [← e1, ← e2] at hfl
        exact C12.C12_positions_ordered nw hd hw hap t.nodes hc _ _ hfl
          (isActivity_of_not_depot (by simpa using hld))
  have hsplit := take_drop_split t.nodes k m hkm
  conv => rhs; rw [hsplit]
  simp only [occ_append]
  omega

/-! ### the public modifications -/

theorem fresh_no_tour {s : Schedule} (hi : ListInv s) : assocGet? s.tours (Veh.real s.counter) = none := by
  cases hg : assocGet? s.tours (Veh.real s.counter) with
  | none => rfl
  | some x =>
    have := (hi.fresh (Veh.real s.counter) (by show (assocGet? s.tours _).isSome = true; simp [hg])).2
    simp [Veh.real, coreOf] at this

theorem real_not_dummy {s : Schedule} (hd : DummyInv s) (c : Nat) : s.isDummy (Veh.real c) = false := by
  cases hdm : s.isDummy (Veh.real c) with
  | false => rfl
  | true => have := hd _ hdm; cases this

theorem indO_realOf_of_not_dummy {s : Schedule} {v : Veh} (h : s.isDummy v = false) (w : Veh) :
    indO (realOf s (some v)) w = if v = w then 1 else 0 := by
  simp [realOf, h, indO, ind]

theorem indO_realOf_none (s : Schedule) (w : Veh) : indO (realOf s none) w = 0 := rfl

theorem indO_realOf_dummy {s : Schedule} {v : Veh} (h : s.isDummy v = true) (w : Veh) :
    indO (realOf s (some v)) w = 0 := by simp [realOf, h, indO]

theorem spawn_forms {nw : Network} {s s' : Schedule} {vt : Nat} {path : List Nat} {v : Veh}
    (hi : ListInv s) (hd : DummyInv s) (hf : FormCount nw s.tours s.formations)
    (h : spawnVehicleForPath nw s vt path = .ok (s', v)) : FormCount nw s'.tours s'.formations := by
  unfold spawnVehicleForPath at h
  split at h
  · cases h
  · obtain ⟨nodes, _, h⟩ := bind_ok h
    dsimp only at h
    obtain ⟨tour, _, h⟩ := bind_ok h
    obtain ⟨ids, _, h⟩ := bind_ok h
    obtain ⟨⟨forms, unserved⟩, hutf, h⟩ := bind_ok h
    dsimp only at h
    obtain ⟨usage, _, h⟩ := bind_ok h
    obtain ⟨⟨trans, viol⟩, _, h⟩ := bind_ok h
    simp only [pure, Except.pure, Except.ok.injEq, Prod.mk.injEq] at h
    rw [← h.1]
    intro n w
    have hc := updateTrainFormation_count nw s _ none (some (Veh.real s.counter)) _ _ _ _ _ hutf n w
    rw [indO_realOf_none, indO_realOf_of_not_dummy (real_not_dummy hd _)] at hc
    show (formOf forms n).count w = tourOcc nw (assocSet s.tours (Veh.real s.counter) tour) w n
    rw [tourOcc_set]
    have h0 := hf n w
    by_cases e : w = Veh.real s.counter
    · subst e
      rw [tourOcc_of_none (fresh_no_tour hi)] at h0
      simp only [↓reduceIte] at hc ⊢
      omega
    · have e' : ¬ Veh.real s.counter = w := fun h => e h.symm
      simp only [e, e', ↓reduceIte] at hc ⊢
      omega

theorem delete_forms {nw : Network} {s s' : Schedule} {v : Veh}
    (hi : ListInv s) (hd : DummyInv s) (hf : FormCount nw s.tours s.formations)
    (h : replaceVehicleByDummy nw s v = .ok s') : FormCount nw s'.tours s'.formations := by
  unfold replaceVehicleByDummy at h
  inv_do h
  all_goals (try contradiction)
  all_goals (try (cases h))
  all_goals (try (simp only [pure, Except.pure, Except.ok.injEq] at *))
  all_goals (try subst_vars)
  all_goals (
    have hold := unwrapO_ok (by assumption : unwrapO (assocGet? s.tours v) _ = .ok _)
    have hv' := isVehicle_of_tour hi hold
    intro n w
    have hc := updateTrainFormation_count nw s _ (some v) none _ s.formations _ _ _ (by assumption) n w
    rw [indO_realOf_none, indO_realOf_of_not_dummy (vehicle_not_dummy hi hd hv')] at hc
    show (formOf _ n).count w = tourOcc nw (assocErase s.tours v) w n
    rw [tourOcc_erase]
    have h0 := hf n w
    by_cases e : w = v
    · subst e
      rw [tourOcc_of_get hold] at h0
      simp only [↓reduceIte] at hc ⊢
      omega
    · have e' : ¬ v = w := fun h => e h.symm
      simp only [e, e', ↓reduceIte] at hc ⊢
      omega)

/-- the three network-level hypotheses (decidable on a loaded network, `formHypsB`) -/
structure NetHyp (nw : Network) : Prop where
  dt : C17.DepotTimes nw
  wf : NodesWF' nw
  ap : C12.ActPos nw

theorem addPath_forms {nw : Network} (hn : NetHyp nw) {s s' : Schedule} {v : Veh} {path : List Nat}
    {rm : Option (List Nat)} (hi : ListInv s) (hd : DummyInv s) (ho : ToursOK nw s.tours) (hp : PathOK nw path)
    (hf : FormCount nw s.tours s.formations)
    (h : addPathToVehicleTour nw s v path = .ok (s', rm)) : FormCount nw s'.tours s'.formations := by
  unfold addPathToVehicleTour at h
  inv_do h
  all_goals (try contradiction)
  all_goals (try (cases h))
  all_goals (try (simp only [pure, Except.pure, Except.ok.injEq] at *))
  all_goals (try subst_vars)
  all_goals (
    have hold := unwrapO_ok (by assumption : unwrapO (assocGet? s.tours v) _ = .ok _)
    have hv' := isVehicle_of_tour hi hold
    have hnd := vehicle_not_dummy hi hd hv'
    have hins := insert_occ nw hn.dt hn.wf hn.ap _ _ path _ (ho v _ hold) hp (by assumption)
    intro n w
    have c1 := updateTrainFormation_count nw s _ none (some v) path s.formations _ _ _ (by assumption) n w
    rw [indO_realOf_none, indO_realOf_of_not_dummy hnd] at c1
    have h0 := hf n w
    have hi' := hins n
    show (formOf _ n).count w = tourOcc nw (assocSet s.tours v _) w n
    rw [tourOcc_set]
    first
    | (-- a conflict path was displaced
       have c2 := updateTrainFormation_count nw s _ (some v) none _ _ _ _ _ (by assumption) n w
       rw [indO_realOf_none, indO_realOf_of_not_dummy hnd] at c2
       by_cases e : w = v
       · subst e
         rw [tourOcc_of_get hold] at h0
         simp only [↓reduceIte, Option.getD_some] at c1 c2 hi' ⊢
         omega
       · have e' : ¬ v = w := fun h => e h.symm
         simp only [e, e', ↓reduceIte] at c1 c2 ⊢
         omega)
    | (by_cases e : w = v
       · subst e
         rw [tourOcc_of_get hold] at h0
         simp only [↓reduceIte, Option.getD_none, occ_nil] at c1 hi' ⊢
         omega
       · have e' : ¬ v = w := fun h => e h.symm
         simp only [e, e', ↓reduceIte] at c1 ⊢
         omega))

theorem utc_tours {s : Schedule} {tours dummyTours : Tours} {costs : Nat} {v : Veh} {t : Tour}
    {r : Tours × Tours × Nat} (h : updateTourAndCosts s tours dummyTours costs v t = .ok r) :
    r.1 = if s.isDummy v then tours else assocSet tours v t := by
  unfold updateTourAndCosts at h
  split at h
  · rename_i hdm
    simp only [pure, Except.pure, Except.ok.injEq] at h; rw [← h]; simp [hdm]
  · rename_i hdm
    obtain ⟨old, _, h⟩ := bind_ok h
    obtain ⟨c', _, h⟩ := bind_ok h
    simp only [pure, Except.pure, Except.ok.injEq] at h; rw [← h]; simp [hdm]

theorem rmSeg_forms {nw : Network} {s s' : Schedule} {v : Veh} {a b : Nat}
    (hi : ListInv s) (hd : DummyInv s) (hf : FormCount nw s.tours s.formations)
    (h : removeSegment nw s v a b = .ok s') : FormCount nw s'.tours s'.formations := by
  unfold removeSegment at h
  inv_do h
  all_goals (try contradiction)
  all_goals (try (cases h))
  all_goals (first
    | exact delete_forms hi hd hf (by assumption)
    | (have hv' : s.isVehicle v = true := by simpa using (by assumption : ¬ (!s.isVehicle v) = true)
       have htour := unwrapO_ok (by assumption : unwrapO (s.tourOf? v) _ = .ok _)
       rw [(tourOf_vehicle hi hv').1] at htour
       have hnd := vehicle_not_dummy hi hd hv'
       subst_vars
       have hrem := remove_some_occ (by assumption : Tour.remove nw _ a b = .ok (some _, _))
       have hutc := utc_tours (by assumption : updateTourAndCosts s s.tours _ _ v _ = .ok _)
       simp only [hnd, Bool.false_eq_true, ↓reduceIte] at hutc
       intro n w
       have c1 := updateTrainFormation_count nw s _ (some v) none _ s.formations _ _ _ (by assumption) n w
       rw [indO_realOf_none, indO_realOf_of_not_dummy hnd] at c1
       have h0 := hf n w
       have hr := hrem n
       show (formOf _ n).count w = tourOcc nw _ w n
       rw [hutc, tourOcc_set]
       by_cases e : w = v
       · subst e
         rw [tourOcc_of_get htour] at h0
         simp only [↓reduceIte] at c1 ⊢
         omega
       · have e' : ¬ v = w := fun h => e h.symm
         simp only [e, e', ↓reduceIte] at c1 ⊢
         omega))

/-! ### depot replacement leaves the activities alone -/

theorem replaceStartDepot_occ {nw : Network} {t t' : Tour} {d : Nat} (ht : TourOK nw t)
    (h : t.replaceStartDepot nw d = .ok t') (n : Nat) : occ nw t'.nodes n = occ nw t.nodes n := by
  unfold Tour.replaceStartDepot at h
  split at h
  · cases h
  · split at h
    · cases h
    · rename_i hd
      have hd' : (nw.node d).isDepot = true := by
        have : (nw.node d).isStartDepot = true := by simpa using hd
        simp [Node.isDepot, this]
      have hnodes : t'.nodes = t.nodes.set 0 d := by
        inv_do h
        all_goals (try contradiction)
        all_goals (try (cases h))
        all_goals (simp only [pure, Except.pure, Except.ok.injEq] at *)
        all_goals (subst_vars)
        all_goals rfl
      rw [hnodes]
      obtain ⟨sd, mid, ed, hl, hsd, _, _, _⟩ := ht.shape
      apply occ_set_depot nw t.nodes 0 d n hd'
      intro x hx
      rw [hl] at hx
      simp at hx
      rw [← hx]; simp [Node.isDepot, hsd]

theorem replaceEndDepot_occ {nw : Network} {t t' : Tour} {d : Nat} (ht : TourOK nw t)
    (h : t.replaceEndDepot nw d = .ok t') (n : Nat) : occ nw t'.nodes n = occ nw t.nodes n := by
  unfold Tour.replaceEndDepot at h
  split at h
  · cases h
  · split at h
    · cases h
    · rename_i hd
      have hd' : (nw.node d).isDepot = true := by
        have : (nw.node d).isEndDepot = true := by simpa using hd
        simp [Node.isDepot, this]
      have hnodes : t'.nodes = t.nodes.set (t.nodes.length - 1) d := by
        inv_do h
        all_goals (try contradiction)
        all_goals (try (cases h))
        all_goals (simp only [pure, Except.pure, Except.ok.injEq] at *)
        all_goals (subst_vars)
        all_goals rfl
      rw [hnodes]
      obtain ⟨sd, mid, ed, hl, _, hed, _, _⟩ := ht.shape
      apply occ_set_depot nw t.nodes (t.nodes.length - 1) d n hd'
      intro x hx
      rw [hl] at hx
      have : (sd :: (mid ++ [ed]))[(sd :: (mid ++ [ed])).length - 1]? = some ed := by
        simp [List.getElem?_append_right]
      rw [this] at hx
      simp at hx
      rw [← hx]; simp [Node.isDepot, hed]

theorem improveDepotsOfTour_occ {nw : Network} {t nt : Tour} {vt : Nat} {u : DepotUsage} (ht : TourOK nw t)
    (h : improveDepotsOfTour nw t vt u = .ok nt) (n : Nat) : occ nw nt.nodes n = occ nw t.nodes n := by
  unfold improveDepotsOfTour at h
  obtain ⟨fnd, _, h⟩ := bind_ok h
  obtain ⟨ns, _, h⟩ := bind_ok h
  obtain ⟨cur, _, h⟩ := bind_ok h
  dsimp only at h
  have tail : ∀ t1, TourOK nw t1 → (do
      let lnd ← unwrapO (lastNonDepot nw t1) "last_non_depot().unwrap()"
      let ne ← unwrapR (findBestEndDepot nw lnd) "find_best_end_depot_for_despawning(..).unwrap()"
      let curE ← Transition.endDepotU nw t1
      if (ne != curE) = true then unwrapR (replaceEndDepot nw t1 ne) "replace_end_depot(..).unwrap()" else pure t1) = .ok nt →
      occ nw nt.nodes n = occ nw t1.nodes n := by
    intro t1 h1 h
    obtain ⟨lnd, _, h⟩ := bind_ok h
    obtain ⟨ne, _, h⟩ := bind_ok h
    obtain ⟨curE, _, h⟩ := bind_ok h
    split at h
    · exact replaceEndDepot_occ h1 (unwrapR_ok h) n
    · simp only [pure, Except.pure, Except.ok.injEq] at h; rw [← h]
  split at h
  · obtain ⟨t1, ht1, h⟩ := bind_ok h
    rw [tail t1 (replaceStartDepot_tourOK nw _ _ _ ht (unwrapR_ok ht1)) h]
    exact replaceStartDepot_occ ht (unwrapR_ok ht1) n
  · obtain ⟨t1, ht1, h⟩ := bind_ok h
    simp only [pure, Except.pure, Except.ok.injEq] at ht1
    subst ht1
    exact tail _ ht h

/-! ### the three folds that re-choose depots, recomputation, transition replacement -/

def SameOcc (nw : Network) (T0 T : Tours) : Prop := ∀ w n, tourOcc nw T w n = tourOcc nw T0 w n

theorem formCount_of_sameOcc {nw : Network} {T0 T : Tours} {forms : List (Nat × List Veh)}
    (hf : FormCount nw T0 forms) (h : SameOcc nw T0 T) : FormCount nw T forms := by
  intro n w; rw [hf n w, h w n]

theorem fold_sameOcc (nw : Network) (T0 : Tours) (F : Acc → Veh → R Acc) (L0 : List Veh)
    (hF : ∀ acc v acc', v ∈ L0 → F acc v = .ok acc' →
      ∃ nt, acc'.1 = assocSet acc.1 v nt ∧ ∀ n, occ nw nt.nodes n = tourOcc nw T0 v n) :
    ∀ (L : List Veh) (acc acc' : Acc), (∀ v ∈ L, v ∈ L0) → SameOcc nw T0 acc.1 → L.foldlM F acc = .ok acc' →
      SameOcc nw T0 acc'.1
  | [], acc, acc', _, ho, h => by
    simp only [List.foldlM_nil, pure, Except.pure, Except.ok.injEq] at h
    rw [← h]; exact ho
  | x :: xs, acc, acc', hL, ho, h => by
    rw [List.foldlM_cons] at h
    obtain ⟨a1, h1, h⟩ := bind_ok h
    obtain ⟨nt, hset, hnt⟩ := hF acc x a1 (hL x (by simp)) h1
    refine fold_sameOcc nw T0 F L0 hF xs a1 acc' (fun v hv => hL v (by simp [hv])) ?_ h
    intro w n
    rw [hset, tourOcc_set]
    by_cases e : w = x
    · subst e; simp only [↓reduceIte]; exact hnt n
    · simp only [e, ↓reduceIte]; exact ho w n

theorem vehTour_occ {nw : Network} {s : Schedule} {v : Veh} {t : Tour} (hi : ListInv s)
    (hv : s.isVehicle v = true) (h : s.tourOf? v = some t) (n : Nat) : tourOcc nw s.tours v n = occ nw t.nodes n := by
  rw [(tourOf_vehicle hi hv).1] at h
  exact tourOcc_of_get h n

theorem improveStep_occ {nw : Network} {s : Schedule} {acc acc' : Acc} {v : Veh} (hi : ListInv s)
    (ho : ToursOK nw s.tours) (h : improveStep nw s acc v = .ok acc') :
    ∃ nt, acc'.1 = assocSet acc.1 v nt ∧ ∀ n, occ nw nt.nodes n = tourOcc nw s.tours v n := by
  obtain ⟨tours, u, costs⟩ := acc
  unfold improveStep at h
  dsimp only at h
  obtain ⟨t, ht, h⟩ := bind_ok h
  obtain ⟨vt, hvt, h⟩ := bind_ok h
  obtain ⟨nt, hnt, h⟩ := bind_ok h
  obtain ⟨c, hc, h⟩ := bind_ok h
  obtain ⟨sd, _, h⟩ := bind_ok h
  obtain ⟨ed, _, h⟩ := bind_ok h
  simp only [pure, Except.pure, Except.ok.injEq] at h
  subst h
  have hv := typed_isVehicle (unwrapO_ok hvt)
  refine ⟨nt, rfl, fun n => ?_⟩
  rw [vehTour_occ hi hv (unwrapO_ok ht) n]
  exact improveDepotsOfTour_occ (vehTour_ok hi ho hv (unwrapO_ok ht)) hnt n

theorem greedyStep_occ {nw : Network} {s : Schedule} {acc acc' : Acc} {v : Veh} (hi : ListInv s)
    (ho : ToursOK nw s.tours) (hv : s.isVehicle v = true) (h : greedyStep nw s acc v = .ok acc') :
    ∃ nt, acc'.1 = assocSet acc.1 v nt ∧ ∀ n, occ nw nt.nodes n = tourOcc nw s.tours v n := by
  obtain ⟨tours, u, costs⟩ := acc
  unfold greedyStep at h
  dsimp only at h
  obtain ⟨t, ht, h⟩ := bind_ok h
  obtain ⟨lnd, _, h⟩ := bind_ok h
  split at h
  · obtain ⟨ne, _, h⟩ := bind_ok h
    obtain ⟨nt, hnt, h⟩ := bind_ok h
    obtain ⟨c, hc, h⟩ := bind_ok h
    obtain ⟨u', _, h⟩ := bind_ok h
    simp only [pure, Except.pure, Except.ok.injEq] at h
    subst h
    refine ⟨nt, rfl, fun n => ?_⟩
    rw [vehTour_occ hi hv (unwrapO_ok ht) n]
    exact replaceEndDepot_occ (vehTour_ok hi ho hv (unwrapO_ok ht)) (unwrapR_ok hnt) n
  · simp [bind, Except.bind] at h

theorem endStep_occ {nw : Network} {s : Schedule} {acc acc' : Acc} {v : Veh} (hi : ListInv s)
    (ho : ToursOK nw s.tours) (h : C05.endStep nw s acc v = .ok acc') :
    ∃ nt, acc'.1 = assocSet acc.1 v nt ∧ ∀ n, occ nw nt.nodes n = tourOcc nw s.tours v n := by
  obtain ⟨tours, u, costs⟩ := acc
  unfold C05.endStep at h
  dsimp only at h
  obtain ⟨t, ht, h⟩ := bind_ok h
  obtain ⟨vt, hvt, h⟩ := bind_ok h
  obtain ⟨tr, htr, h⟩ := bind_ok h
  obtain ⟨next, hnext, h⟩ := bind_ok h
  obtain ⟨ntour, hntour, h⟩ := bind_ok h
  obtain ⟨sd, hsd, h⟩ := bind_ok h
  obtain ⟨nt, hnt, h⟩ := bind_ok h
  obtain ⟨c, _, h⟩ := bind_ok h
  obtain ⟨u', _, h⟩ := bind_ok h
  simp only [pure, Except.pure, Except.ok.injEq] at h
  subst h
  have hv := typed_isVehicle (unwrapO_ok hvt)
  refine ⟨nt, rfl, fun n => ?_⟩
  rw [vehTour_occ hi hv (unwrapO_ok ht) n]
  exact replaceEndDepot_occ (vehTour_ok hi ho hv (unwrapO_ok ht)) (unwrapR_ok hnt) n

theorem sameOcc_refl (nw : Network) (T : Tours) : SameOcc nw T T := fun _ _ => rfl

theorem endConsistent_sameOcc {nw : Network} {s s' : Schedule} (hi : ListInv s) (ho : ToursOK nw s.tours)
    (h : reassignEndDepotsConsistent nw s = .ok s') : SameOcc nw s.tours s'.tours := by
  have hunf : reassignEndDepotsConsistent nw s = (do
      let (tours, usage, cst) ← (s.vehiclesAll nw).foldlM (C05.endStep nw s) (s.tours, s.depotUsage, s.costs)
      let (trans, viol) ← updateTransitionsFast nw s s.vehicles tours (s.vehiclesAll nw) [] s.transitions s.violation
      pure { s with tours, transitions := trans, depotUsage := usage, violation := viol, costs := cst }) := rfl
  rw [hunf] at h
  obtain ⟨⟨tours, usage, cst⟩, hfold, h⟩ := bind_ok h
  dsimp only at h
  obtain ⟨⟨trans, viol⟩, _, h⟩ := bind_ok h
  simp only [pure, Except.pure, Except.ok.injEq] at h
  rw [← h]
  exact fold_sameOcc nw s.tours (C05.endStep nw s) (s.vehiclesAll nw)
    (fun acc v acc' _ hstep => endStep_occ hi ho hstep)
    (s.vehiclesAll nw) (s.tours, s.depotUsage, s.costs) (tours, usage, cst) (fun _ h => h) (sameOcc_refl nw _) hfold

theorem endGreedy_sameOcc {nw : Network} {s s' : Schedule} (hi : ListInv s) (ho : ToursOK nw s.tours)
    (h : reassignEndDepotsGreedily nw s = .ok s') : SameOcc nw s.tours s'.tours := by
  have hunf : reassignEndDepotsGreedily nw s = (do
      let (tours, usage, cst) ← (s.vehiclesAll nw).foldlM (greedyStep nw s) (s.tours, s.depotUsage, s.costs)
      let (trans, viol) ← recomputeTransitions nw s.idsByType tours nw.typeIdxs s.transitions s.violation
      pure { s with tours, transitions := trans, depotUsage := usage, violation := viol, costs := cst }) := rfl
  rw [hunf] at h
  obtain ⟨⟨tours, usage, cst⟩, hfold, h⟩ := bind_ok h
  dsimp only at h
  obtain ⟨⟨trans, viol⟩, _, h⟩ := bind_ok h
  simp only [pure, Except.pure, Except.ok.injEq] at h
  rw [← h]
  exact fold_sameOcc nw s.tours (greedyStep nw s) (s.vehiclesAll nw)
    (fun acc v acc' hv hstep => greedyStep_occ hi ho (listed_isVehicle hi hv) hstep)
    (s.vehiclesAll nw) (s.tours, s.depotUsage, s.costs) (tours, usage, cst) (fun _ h => h) (sameOcc_refl nw _) hfold

theorem improve_sameOcc {nw : Network} {s s' : Schedule} {vs : Option (List Veh)} (hi : ListInv s)
    (ho : ToursOK nw s.tours) (h : improveDepots nw s vs = .ok s') : SameOcc nw s.tours s'.tours := by
  unfold improveDepots at h
  dsimp only at h
  obtain ⟨usage0, _, h⟩ := bind_ok h
  have hstep : ∀ (u0 : DepotUsage) (r : Acc),
      (vs.getD (s.vehiclesAll nw)).foldlM (improveStep nw s) (s.tours, u0, s.costs) = .ok r → SameOcc nw s.tours r.1 := by
    intro u0 r hfold
    exact fold_sameOcc nw s.tours (improveStep nw s) (vs.getD (s.vehiclesAll nw))
      (fun acc v acc' _ hst => improveStep_occ hi ho hst)
      _ (s.tours, u0, s.costs) r (fun _ h => h) (sameOcc_refl nw _) hfold
  obtain ⟨⟨tours, usage, cst⟩, hfold, h⟩ := bind_ok h
  have hc := hstep usage0 (tours, usage, cst) hfold
  inv_do h
  all_goals (try contradiction)
  all_goals (try (cases h))
  all_goals exact hc

/-! ### `update_tours` (the bookkeeping shared by fit and override) -/

/-- the tour map after the provider's part of `update_tours` -/
def provTours (s : Schedule) (p : Veh) (newProv : Option Tour) : Tours :=
  if s.isDummy p then s.tours else
  match newProv with
  | some t => assocSet s.tours p t
  | none => if s.isVehicle p then assocErase s.tours p else s.tours

/-- occurrences on what is left of the provider's tour (nothing when no tour is left) -/
def shrunkOcc (nw : Network) (shrunk : Option Tour) (n : Nat) : Nat :=
  match shrunk with
  | some t => occ nw t.nodes n
  | none => 0

theorem updateTours_spec {nw : Network} {s : Schedule} {w' : Work} {p r : Veh} {newProv : Option Tour}
    {newRecv : Tour} {moved : List Nat}
    (h : updateTours nw s (Work.ofSchedule s) (some p) newProv r newRecv moved = .ok w') :
    w'.tours = (if s.isDummy r then provTours s p newProv else assocSet (provTours s p newProv) r newRecv) ∧
    ∀ n x, (formOf w'.forms n).count x + indO (realOf s (some p)) x * occ nw moved n
      = (formOf s.formations n).count x + indO (realOf s (if s.isVehicle r then some r else none)) x * occ nw moved n := by
  unfold updateTours at h
  dsimp only at h
  inv_do h
  all_goals (try contradiction)
  all_goals (try (cases h))
  all_goals (try (simp only [pure, Except.pure, Except.ok.injEq] at *))
  all_goals (try subst_vars)
  all_goals (
    have hr := utc_tours (by assumption : updateTourAndCosts s _ _ _ r newRecv = .ok _)
    have hc := fun n x => updateTrainFormation_count nw s _ (some p) (if s.isVehicle r then some r else none)
      moved _ _ _ _ (by assumption) n x
    refine ⟨?_, hc⟩
    first
    | (have hp := utc_tours (by assumption : updateTourAndCosts s _ _ _ p _ = .ok _)
       simp_all [provTours, Work.ofSchedule])
    | simp_all [provTours, Work.ofSchedule])

theorem tourOf_not_dummy {s : Schedule} {v : Veh} {t : Tour} (h : s.tourOf? v = some t) (hnd : s.isDummy v = false) :
    assocGet? s.tours v = some t := by
  unfold Schedule.tourOf? at h
  split at h
  · rename_i t' ht'; rw [ht']; exact h
  · unfold Schedule.isDummy at hnd; rw [h] at hnd; cases hnd

theorem dummy_not_vehicle {s : Schedule} (hi : ListInv s) (hd : DummyInv s) {v : Veh} (h : s.isDummy v = true) :
    s.isVehicle v = false := by
  cases hv : s.isVehicle v with
  | false => rfl
  | true => have := vehicle_not_dummy hi hd hv; rw [h] at this; cases this

/-- provider side of a reassignment: whatever left the provider's tour (`moved`), counted over
    activities, is missing from its entry in the tour map -/
theorem provTours_occ {nw : Network} {s : Schedule} {p : Veh} {pt : Tour} {shrunk : Option Tour} {moved : List Nat}
    (hi : ListInv s) (hpt : s.tourOf? p = some pt)
    (hocc : s.isDummy p = false → ∀ n, shrunkOcc nw shrunk n + occ nw moved n = occ nw pt.nodes n)
    (x : Veh) (n : Nat) :
    tourOcc nw (provTours s p shrunk) x n + indO (realOf s (some p)) x * occ nw moved n = tourOcc nw s.tours x n := by
  unfold provTours
  by_cases hdm : s.isDummy p = true
  · simp only [hdm, ↓reduceIte, indO_realOf_dummy hdm, Nat.zero_mul, Nat.add_zero]
  · have hdm' : s.isDummy p = false := by simpa using hdm
    have hget := tourOf_not_dummy hpt hdm'
    have hv := isVehicle_of_tour hi hget
    have ho := hocc hdm' n
    rw [indO_realOf_of_not_dummy hdm']
    simp only [hdm', Bool.false_eq_true, ↓reduceIte]
    cases shrunk with
    | some t =>
      simp only [shrunkOcc] at ho ⊢
      rw [tourOcc_set]
      by_cases e : x = p
      · subst e; rw [tourOcc_of_get hget]; simp only [↓reduceIte, Nat.one_mul]; omega
      · have e' : ¬ p = x := fun h => e h.symm
        simp only [e, e', ↓reduceIte, Nat.zero_mul, Nat.add_zero]
    | none =>
      simp only [hv, ↓reduceIte, shrunkOcc] at ho ⊢
      rw [tourOcc_erase]
      by_cases e : x = p
      · subst e; rw [tourOcc_of_get hget]; simp only [↓reduceIte, Nat.one_mul]; omega
      · have e' : ¬ p = x := fun h => e h.symm
        simp only [e, e', ↓reduceIte, Nat.zero_mul, Nat.add_zero]

/-- receiver side of a reassignment -/
theorem recvTours_occ {nw : Network} {s : Schedule} {r : Veh} {rt newRecv : Tour} {PT : Tours}
    {moved dropped : List Nat} (hi : ListInv s) (hd : DummyInv s) (hrt : s.tourOf? r = some rt)
    (hPT : ∀ n, tourOcc nw PT r n = tourOcc nw s.tours r n)
    (hocc : s.isVehicle r = true → ∀ n, occ nw newRecv.nodes n + occ nw dropped n = occ nw rt.nodes n + occ nw moved n)
    (x : Veh) (n : Nat) :
    tourOcc nw (if s.isDummy r then PT else assocSet PT r newRecv) x n
        + indO (realOf s (if s.isVehicle r then some r else none)) x * occ nw dropped n
      = tourOcc nw PT x n + indO (realOf s (if s.isVehicle r then some r else none)) x * occ nw moved n := by
  by_cases hdm : s.isDummy r = true
  · have hv := dummy_not_vehicle hi hd hdm
    simp only [hdm, hv, ↓reduceIte, Bool.false_eq_true, indO_realOf_none, Nat.zero_mul, Nat.add_zero]
  · have hdm' : s.isDummy r = false := by simpa using hdm
    have hget := tourOf_not_dummy hrt hdm'
    have hv := isVehicle_of_tour hi hget
    have ho := hocc hv n
    simp only [hdm', hv, Bool.false_eq_true, ↓reduceIte]
    rw [indO_realOf_of_not_dummy hdm', tourOcc_set]
    by_cases e : x = r
    · subst e
      have := hPT n
      rw [tourOcc_of_get hget] at this
      simp only [↓reduceIte, Nat.one_mul]; omega
    · have e' : ¬ r = x := fun h => e h.symm
      simp only [e, e', ↓reduceIte, Nat.zero_mul, Nat.add_zero]

theorem provTours_other {nw : Network} {s : Schedule} {p r : Veh} {shrunk : Option Tour} (hne : p ≠ r) (n : Nat) :
    tourOcc nw (provTours s p shrunk) r n = tourOcc nw s.tours r n := by
  have e : ¬ r = p := fun h => hne h.symm
  unfold provTours
  split
  · rfl
  · split
    · rw [tourOcc_set]; simp only [e, ↓reduceIte]
    · split
      · rw [tourOcc_erase]; simp only [e, ↓reduceIte]
      · rfl

/-! ### reassignments -/

/-- the shared core of `fit_reassign` and `override_reassign`: after `update_tours`, the formations
    agree with the new tours except that the (real) receiver is still listed on the nodes the
    insertion displaced from its tour -/
theorem reassign_core {nw : Network} {s : Schedule} {p r : Veh} {pt rt newRecv : Tour} {shrunk : Option Tour}
    {moved dropped : List Nat} {w : Work} (hi : ListInv s) (hd : DummyInv s)
    (hf : FormCount nw s.tours s.formations) (hne : p ≠ r)
    (hpt : s.tourOf? p = some pt) (hrt : s.tourOf? r = some rt)
    (hprov : s.isDummy p = false → ∀ n, shrunkOcc nw shrunk n + occ nw moved n = occ nw pt.nodes n)
    (hrecv : s.isVehicle r = true → ∀ n, occ nw newRecv.nodes n + occ nw dropped n = occ nw rt.nodes n + occ nw moved n)
    (hut : updateTours nw s (Work.ofSchedule s) (some p) shrunk r newRecv moved = .ok w) (n : Nat) (x : Veh) :
    (formOf w.forms n).count x
      = tourOcc nw w.tours x n + indO (realOf s (if s.isVehicle r then some r else none)) x * occ nw dropped n := by
  obtain ⟨htours, hcnt⟩ := updateTours_spec hut
  have hC := hcnt n x
  have hA := provTours_occ (nw := nw) (shrunk := shrunk) (moved := moved) hi hpt hprov x n
  have hB := recvTours_occ (nw := nw) (newRecv := newRecv) (PT := provTours s p shrunk) (moved := moved)
    (dropped := dropped) hi hd hrt (fun n => provTours_other hne n) hrecv x n
  have hF := hf n x
  rw [htours]
  generalize indO (realOf s (some p)) x * occ nw moved n = A at *
  generalize indO (realOf s (if s.isVehicle r then some r else none)) x * occ nw moved n = B at *
  generalize indO (realOf s (if s.isVehicle r then some r else none)) x * occ nw dropped n = C at *
  omega

theorem override_leaf {nw : Network} (hn : NetHyp nw) {s : Schedule} {p r : Veh} {a b : Nat} {pt rt : Tour}
    {shrunk : Option Tour} {path : List Nat} {ins : Tour × Option (List Nat)} {w : Work} {site1 site2 : String}
    (hi : ListInv s) (hd : DummyInv s) (ho : ToursOK nw s.tours) (hf : FormCount nw s.tours s.formations)
    (hne : p ≠ r)
    (hpt' : unwrapO (s.tourOf? p) site1 = .ok pt) (hrt' : unwrapO (s.tourOf? r) site2 = .ok rt)
    (hrem : Tour.remove nw pt a b = .ok (shrunk, path))
    (hchk : ¬ (s.isDummy p && s.isVehicle r && !(Tour.isChain nw path)) = true)
    (hins : insertPath nw true rt path = .ok ins)
    (hut : updateTours nw s (Work.ofSchedule s) (some p) shrunk r ins.1 path = .ok w) (n : Nat) (x : Veh) :
    (formOf w.forms n).count x = tourOcc nw w.tours x n
      + indO (realOf s (if s.isVehicle r then some r else none)) x * occ nw (ins.2.getD []) n := by
  have hpt := unwrapO_ok hpt'
  have hrt := unwrapO_ok hrt'
  have hprov : s.isDummy p = false → ∀ n, shrunkOcc nw shrunk n + occ nw path n = occ nw pt.nodes n := by
    intro hdm n
    have hget := tourOf_not_dummy hpt hdm
    have hok := ho p _ hget
    cases shrunk with
    | some t => have := remove_some_occ hrem n; simp only [shrunkOcc]; omega
    | none => have := remove_none_occ hok hrem n; simp only [shrunkOcc]; omega
  have hrecv : s.isVehicle r = true → ∀ n, occ nw ins.1.nodes n + occ nw (ins.2.getD []) n
      = occ nw rt.nodes n + occ nw path n := by
    intro hv n
    have hndr := vehicle_not_dummy hi hd hv
    have hget := tourOf_not_dummy hrt hndr
    have hpath : PathOK nw path := by
      by_cases hdm : s.isDummy p = true
      · simp only [hdm, hv, Bool.and_self, Bool.true_and] at hchk
        exact ⟨chain_of_neg (by simpa using hchk), (removed_facts hrem).1⟩
      · have hdm' : s.isDummy p = false := by simpa using hdm
        exact removed_pathOK (ho p _ (tourOf_not_dummy hpt hdm')) hrem
    exact insert_occ nw hn.dt hn.wf hn.ap rt ins.1 path ins.2 (ho r _ hget) hpath hins n
  exact reassign_core hi hd hf hne hpt hrt hprov hrecv hut n x

theorem override_forms {nw : Network} (hn : NetHyp nw) {s s' : Schedule} {p r : Veh} {a b : Nat} {d : Option Veh}
    (hi : ListInv s) (hd : DummyInv s) (ho : ToursOK nw s.tours) (hf : FormCount nw s.tours s.formations)
    (hne : p ≠ r) (h : overrideReassign nw s p r a b = .ok (s', d)) : FormCount nw s'.tours s'.formations := by
  unfold overrideReassign at h
  inv_do h
  all_goals (try contradiction)
  all_goals (try (cases h))
  all_goals (try (simp only [pure, Except.pure, Except.ok.injEq] at *))
  all_goals (try subst_vars)
  all_goals (
    have hcore := fun n x => override_leaf hn hi hd ho hf hne (by assumption) (by assumption) (by assumption)
      (by assumption) (by assumption) (by assumption) n x
    intro n x
    have hc := hcore n x
    try dsimp only
    first
    | (rw [(by assumption : Prod.snd _ = none)] at hc
       simpa [occ_nil] using hc)
    | (have c2 := updateTrainFormation_count nw s _ (some r) none _ _ _ _ _ (by assumption) n x
       have hv : s.isVehicle r = true := by assumption
       rw [(by assumption : Prod.snd _ = some _)] at hc
       simp only [hv, ↓reduceIte, Option.getD_some, indO_realOf_none, Nat.zero_mul, Nat.add_zero] at hc c2
       omega)
    | (have hv : ¬ s.isVehicle r = true := by assumption
       rw [(by assumption : Prod.snd _ = some _)] at hc
       rw [if_neg hv] at hc
       simp only [indO_realOf_none, Nat.zero_mul, Nat.add_zero] at hc
       exact hc))

/-! ### the remaining modifications and the step theorem -/

theorem dummySpawn_forms {nw : Network} {s s' : Schedule} {d : Veh} {vt : Nat} {v : Veh}
    (hi : ListInv s) (hd : DummyInv s) (hf : FormCount nw s.tours s.formations)
    (h : spawnToReplaceDummy nw s d vt = .ok (s', v)) : FormCount nw s'.tours s'.formations := by
  unfold spawnToReplaceDummy at h
  inv_do h
  all_goals (try contradiction)
  all_goals (try (cases h))
  all_goals (
    rename_i s1 hdel
    have hcore := deleteDummy_core hdel
    have hi1 := deleteDummy_listInv hi hdel
    have hd1 := deleteDummy_dk hd hdel
    have hforms := deleteDummy_forms hdel
    have htours : s1.tours = s.tours := congrArg Core.tours hcore
    exact spawn_forms hi1 hd1 (by rw [htours, hforms]; exact hf) h)

theorem recompute_tours {nw : Network} {s s' : Schedule} {vts : Option (List Nat)}
    (h : recomputeTransitionsFor nw s vts = .ok s') : s'.tours = s.tours := by
  unfold recomputeTransitionsFor at h
  inv_do h
  all_goals (try contradiction)
  all_goals (try (cases h))
  all_goals rfl

/-- the invariant of this file: listing, dummy keys, valid real tours, formation counts -/
structure FInv (nw : Network) (s : Schedule) : Prop where
  tinv : TInv nw s
  forms : FormCount nw s.tours s.formations

/-- argument conditions: provider and receiver of a reassignment differ (the neighbourhood never
    offers a vehicle its own segment; with provider = receiver the real code, like the model, takes
    the vehicle off the formations of nodes its tour keeps) -/
def ArgsOKF : SOp → Prop
  | .override p r _ _ => p ≠ r
  | .fit p r _ _ => p ≠ r
  | _ => True

/-- step theorem without `fit_reassign` (whose loop is handled in Props/C10Fit) -/
theorem forms_step_noFit (nw : Network) (hn : NetHyp nw) (s : Schedule) (op : SOp) (r : OpResult)
    (hinv : FInv nw s) (hargs : ArgsOKF op) (hnofit : ∀ p q a b, op ≠ .fit p q a b)
    (h : applyOp nw s op = .ok r) : FormCount nw r.sched.tours r.sched.formations := by
  obtain ⟨⟨hi, hd, ho⟩, hf⟩ := hinv
  unfold applyOp at h
  cases op with
  | init =>
    simp only [pure, Except.pure, Except.ok.injEq] at h
    rw [← h]
    intro n v
    show (formOf (Schedule.empty nw).formations n).count v = tourOcc nw [] v n
    have : ∀ f, assocGet? (Schedule.empty nw).formations n = some f → f = [] := by
      intro f hf'
      have hm := assocGet?_mem hf'
      simp only [Schedule.empty, List.mem_map, Prod.mk.injEq] at hm
      obtain ⟨_, _, _, rfl⟩ := hm; rfl
    unfold formOf tourOcc
    cases hg : assocGet? (Schedule.empty nw).formations n with
    | none => simp [assocGet?_nil]
    | some f => rw [this f hg]; simp [assocGet?_nil]
  | spawn vt path =>
    obtain ⟨⟨s', v⟩, hs, h⟩ := bind_ok h
    simp only [pure, Except.pure, Except.ok.injEq] at h
    rw [← h]; exact spawn_forms hi hd hf hs
  | dummySpawn d vt =>
    obtain ⟨⟨s', v⟩, hs, h⟩ := bind_ok h
    simp only [pure, Except.pure, Except.ok.injEq] at h
    rw [← h]; exact dummySpawn_forms hi hd hf hs
  | delete v =>
    obtain ⟨s', hs, h⟩ := bind_ok h
    simp only [pure, Except.pure, Except.ok.injEq] at h
    rw [← h]; exact delete_forms hi hd hf hs
  | addPath v path =>
    dsimp only at h
    split at h
    · rename_i p hp
      obtain ⟨⟨s', rm⟩, hs, h⟩ := bind_ok h
      simp only [pure, Except.pure, Except.ok.injEq] at h
      rw [← h]; exact addPath_forms hn hi hd ho (pathNew_ok hp) hf hs
    · cases h
  | rmSeg v a b =>
    obtain ⟨s', hs, h⟩ := bind_ok h
    simp only [pure, Except.pure, Except.ok.injEq] at h
    rw [← h]; exact rmSeg_forms hi hd hf hs
  | fit p q a b => exact absurd rfl (hnofit p q a b)
  | override p q a b =>
    obtain ⟨⟨s', d⟩, hs, h⟩ := bind_ok h
    simp only [pure, Except.pure, Except.ok.injEq] at h
    rw [← h]; exact override_forms hn hi hd ho hf hargs hs
  | improve vs =>
    obtain ⟨s', hs, h⟩ := bind_ok h
    simp only [pure, Except.pure, Except.ok.injEq] at h
    rw [← h]; show FormCount nw s'.tours s'.formations
    rw [improve_forms hs]; exact formCount_of_sameOcc hf (improve_sameOcc hi ho hs)
  | endGreedy =>
    obtain ⟨s', hs, h⟩ := bind_ok h
    simp only [pure, Except.pure, Except.ok.injEq] at h
    rw [← h]; show FormCount nw s'.tours s'.formations
    rw [endGreedy_forms hs]; exact formCount_of_sameOcc hf (endGreedy_sameOcc hi ho hs)
  | recompute vts =>
    obtain ⟨s', hs, h⟩ := bind_ok h
    simp only [pure, Except.pure, Except.ok.injEq] at h
    rw [← h]; show FormCount nw s'.tours s'.formations
    rw [recompute_forms hs, recompute_tours hs]; exact hf
  | endConsistent =>
    obtain ⟨s', hs, h⟩ := bind_ok h
    simp only [pure, Except.pure, Except.ok.injEq] at h
    rw [← h]; show FormCount nw s'.tours s'.formations
    rw [(C05.C05_reassign nw s s' hs).2.2.2.1]; exact formCount_of_sameOcc hf (endConsistent_sameOcc hi ho hs)
  | setTrans vt v ci =>
    obtain ⟨tr, _, h⟩ := bind_ok h
    obtain ⟨moved, _, h⟩ := bind_ok h
    simp only [pure, Except.pure, Except.ok.injEq] at h
    rw [← h]; exact hf

end RSSched.C10F
