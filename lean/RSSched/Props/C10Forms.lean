/-
Props/C10Forms: the formation-membership clause of C10 (and the view agreement of C03) for the
model, every history: in every schedule reachable from the empty schedule by public modifications,
for every node `n` and every vehicle `v`

    #occurrences of v in formation(n)  =  #occurrences of n among the activities of v's tour

(0 when `v` has no tour). With duplicate-free tours (chains of positive-length activities) this is
"v is listed in the formation of n exactly once iff n is on v's itinerary, and never otherwise".
The counting form makes the transient states inside one modification unproblematic (a receiver that
already serves a moved node is listed twice until its displaced nodes are taken out again).

Built on `C13.updateTrainFormation_count` (effect of `update_train_formation` in counting form) and
on the node-list facts of the tour modifications (`insertRef`, the slice of `remove`).
-/
import RSSched.Props.C13Formation
import RSSched.Props.C10Tours
namespace RSSched.C10F
open RSSched Schedule Network Tour Spec C15 C02 C13 C10T C10L C09C C10S

/-! ### counting nodes on tours -/

/-- how often `n` occurs among the activities of `v`'s tour in the tour map `T` -/
def tourOcc (nw : Network) (T : Tours) (v : Veh) (n : Nat) : Nat :=
  match assocGet? T v with
  | some t => occ nw t.nodes n
  | none => 0

/-- **formation membership, counting form** -/
def FormCount (nw : Network) (T : Tours) (forms : List (Nat × List Veh)) : Prop :=
  ∀ n v, (formOf forms n).count v = tourOcc nw T v n

theorem occ_append (nw : Network) (a b : List Nat) (n : Nat) : occ nw (a ++ b) n = occ nw a n + occ nw b n := by
  unfold occ; rw [List.filter_append, List.count_append]

theorem occ_nil (nw : Network) (n : Nat) : occ nw [] n = 0 := rfl

theorem occ_zero_of_depots (nw : Network) (l : List Nat) (n : Nat) (h : ∀ x ∈ l, (nw.node x).isDepot = true) :
    occ nw l n = 0 := by
  unfold occ
  have : l.filter (fun x => !(nw.node x).isDepot) = [] := by
    rw [List.filter_eq_nil_iff]; intro x hx; simp [h x hx]
  rw [this]; rfl

theorem occ_of_no_nonDepot (nw : Network) (l : List Nat) (n : Nat) (h : hasNonDepot nw l = false) :
    occ nw l n = 0 := by
  apply occ_zero_of_depots
  intro x hx
  unfold hasNonDepot at h
  rw [List.any_eq_false] at h
  have := h x hx
  simpa using this

theorem occ_set_depot (nw : Network) (l : List Nat) (i d n : Nat) (hd : (nw.node d).isDepot = true)
    (hold : ∀ x, l[i]? = some x → (nw.node x).isDepot = true) : occ nw (l.set i d) n = occ nw l n := by
  induction l generalizing i with
  | nil => simp
  | cons a as ih =>
    cases i with
    | zero =>
      have ha := hold a (by simp)
      simp only [List.set_cons_zero]
      rw [occ_cons_depot nw d as n hd, occ_cons_depot nw a as n ha]
    | succ j =>
      simp only [List.set_cons_succ]
      have := ih j (fun x hx => hold x (by simpa using hx))
      by_cases hda : (nw.node a).isDepot = true
      · rw [occ_cons_depot nw a _ n hda, occ_cons_depot nw a _ n hda, this]
      · have hda' : (nw.node a).isDepot = false := by simpa using hda
        rw [occ_cons_act nw a _ n hda', occ_cons_act nw a _ n hda', this]

theorem take_drop_split (l : List Nat) (s e : Nat) (hse : s ≤ e) :
    l = l.take s ++ (l.drop s).take (e - s) ++ l.drop e := by
  have h1 : l = l.take s ++ l.drop s := (List.take_append_drop s l).symm
  have h2 : l.drop s = (l.drop s).take (e - s) ++ (l.drop s).drop (e - s) := (List.take_append_drop _ _).symm
  have h3 : (l.drop s).drop (e - s) = l.drop e := by rw [List.drop_drop]; congr 1; omega
  rw [h3] at h2
  conv => lhs; rw [h1, h2]
  rw [List.append_assoc]

theorem tourOcc_set (nw : Network) (T : Tours) (v w : Veh) (t : Tour) (n : Nat) :
    tourOcc nw (assocSet T v t) w n = if w = v then occ nw t.nodes n else tourOcc nw T w n := by
  unfold tourOcc; rw [assocGet?_assocSet]
  by_cases e : w = v <;> simp [e]

theorem tourOcc_erase (nw : Network) (T : Tours) (v w : Veh) (n : Nat) :
    tourOcc nw (assocErase T v) w n = if w = v then 0 else tourOcc nw T w n := by
  unfold tourOcc; rw [assocGet?_assocErase]
  by_cases e : w = v <;> simp [e]

theorem tourOcc_of_get {nw : Network} {T : Tours} {v : Veh} {t : Tour} (h : assocGet? T v = some t) (n : Nat) :
    tourOcc nw T v n = occ nw t.nodes n := by unfold tourOcc; rw [h]

theorem tourOcc_of_none {nw : Network} {T : Tours} {v : Veh} (h : assocGet? T v = none) (n : Nat) :
    tourOcc nw T v n = 0 := by unfold tourOcc; rw [h]

theorem ind_mul (p : Prop) [Decidable p] (k : Nat) : ind p * k = if p then k else 0 := by
  unfold ind; split <;> simp

/-! ### node lists of the tour modifications -/

/-- `Tour::remove`: the tour is `take s ++ removed ++ drop (e+1)`, the remaining tour (if one
    remains) is `take s ++ drop (e+1)` -/
theorem remove_split {nw : Network} {t : Tour} {a b : Nat} {ot : Option Tour} {path : List Nat}
    (h : Tour.remove nw t a b = .ok (ot, path)) :
    ∃ s e, checkSeqRemovable nw t s e = .ok () ∧ e + 1 ≤ t.nodes.length ∧
      t.nodes = t.nodes.take s ++ path ++ t.nodes.drop (e + 1) ∧
      (∀ t', ot = some t' → t'.nodes = t.nodes.take s ++ t.nodes.drop (e + 1)) ∧
      (ot = none → (t.nodes.take s ++ t.nodes.drop (e + 1) = [] ∨
         (t.isDummy = false ∧ (t.nodes.take s ++ t.nodes.drop (e + 1)).length ≤ 2))) := by
  unfold Tour.remove at h
  obtain ⟨s, hs, h⟩ := C09.bindR_inv h
  obtain ⟨e, he, h⟩ := C09.bindR_inv h
  obtain ⟨u, hchk, h⟩ := C09.bindR_inv h
  obtain ⟨removed, hrem, h⟩ := C09.bindR_inv h
  obtain ⟨ud, _, h⟩ := C09.bindR_inv h
  obtain ⟨sd', _, h⟩ := C09.bindR_inv h
  obtain ⟨seg, _, h⟩ := C09.bindR_inv h
  obtain ⟨dh0, _, h⟩ := C09.bindR_inv h
  obtain ⟨gapD, _, h⟩ := C09.bindR_inv h
  obtain ⟨cseg, _, h⟩ := C09.bindR_inv h
  obtain ⟨c0, _, h⟩ := C09.bindR_inv h
  obtain ⟨gapC, _, h⟩ := C09.bindR_inv h
  have hchk' : checkSeqRemovable nw t s e = .ok () := by cases u; exact hchk
  obtain ⟨h1, h2, hremeq⟩ := C09.slice_inv hrem
  have hsplit := take_drop_split t.nodes s (e + 1) h1
  rw [← hremeq] at hsplit
  dsimp only at h
  split at h
  · rename_i path' hpt
    have hpath : path' = removed := by
      unfold pathTrusted at hpt
      split at hpt
      · cases hpt
      · simpa using hpt.symm
    subst hpath
    split at h
    · rename_i hcond
      simp only [pure, Except.pure, Except.ok.injEq, Prod.mk.injEq] at h
      obtain ⟨h3, h4⟩ := h
      subst h3; subst h4
      refine ⟨s, e, hchk', h2, hsplit, fun t' ht' => (by cases ht'), fun _ => ?_⟩
      simp only [Bool.or_eq_true, List.isEmpty_iff, Bool.and_eq_true, Bool.not_eq_true', decide_eq_true_eq] at hcond
      rcases hcond with hc | hc
      · exact Or.inl hc
      · exact Or.inr ⟨hc.1, hc.2⟩
    · simp only [pure, Except.pure, Except.ok.injEq, Prod.mk.injEq] at h
      obtain ⟨h3, h4⟩ := h
      subst h3; subst h4
      exact ⟨s, e, hchk', h2, hsplit, fun t' ht' => (by cases ht'; rfl), fun hn => (by cases hn)⟩
  · cases h

/-- a real tour of valid shape from which `remove` leaves no tour has lost all its activities -/
theorem remove_none_occ {nw : Network} {t : Tour} {a b : Nat} {path : List Nat}
    (ht : TourOK nw t) (h : Tour.remove nw t a b = .ok (none, path)) (n : Nat) :
    occ nw t.nodes n = occ nw path n := by
  obtain ⟨s, e, hchk, he, hsp, _, hnone⟩ := remove_split h
  obtain ⟨sd, mid, ed, hl, hsd, hed, hmid, hmidnd⟩ := ht.shape
  obtain ⟨hlen3, hn1, hn2⟩ := C12.checkSeqRemovable_real hchk ht.real
  have hsdD : (nw.node sd).isDepot = true := by simp [Node.isDepot, hsd]
  have hedD : (nw.node ed).isDepot = true := by simp [Node.isDepot, hed]
  have hn : t.nodes.length = mid.length + 2 := by rw [hl]; simp
  have hmidpos : 0 < mid.length := List.length_pos_iff.mpr hmid
  have hdep : ∀ x ∈ t.nodes.take s ++ t.nodes.drop (e + 1), (nw.node x).isDepot = true := by
    rcases hnone rfl with he0 | ⟨_, hlen⟩
    · rw [he0]; intro x hx; cases hx
    · simp only [List.length_append, List.length_take, List.length_drop] at hlen
      -- s ≤ 1 and e + 1 ≥ n - 1
      have hs1 : s ≤ 1 := by
        by_cases h2s : 2 ≤ s
        · exfalso
          have : e = t.nodes.length - 1 := by omega
          exact hn2 ⟨this, h2s⟩
        · omega
      have he1 : mid.length + 1 ≤ e + 1 := by
        by_cases hc : e + 1 ≤ mid.length
        · exfalso
          have hs0 : s = 0 := by omega
          exact hn1 ⟨hs0, by omega⟩
        · omega
      intro x hx
      rcases List.mem_append.mp hx with hxp | hxs
      · have : x ∈ (sd :: (mid ++ [ed])).take 1 := by
          rw [← hl]
          exact List.mem_of_mem_take (by
            have : t.nodes.take s = (t.nodes.take 1).take s := by rw [List.take_take]; congr 1; omega
            rw [this] at hxp; exact hxp)
        simp at this; rw [this]; exact hsdD
      · have hsub : x ∈ t.nodes.drop (mid.length + 1) := by
          have : t.nodes.drop (e + 1) = (t.nodes.drop (mid.length + 1)).drop (e + 1 - (mid.length + 1)) := by
            rw [List.drop_drop]; congr 1; omega
          rw [this] at hxs; exact List.mem_of_mem_drop hxs
        rw [hl] at hsub
        have : (sd :: (mid ++ [ed])).drop (mid.length + 1) = [ed] := by simp
        rw [this] at hsub; simp at hsub; rw [hsub]; exact hedD
  rw [hsp, occ_append, occ_append]
  have h1 : occ nw (t.nodes.take s) n = 0 := occ_zero_of_depots nw _ n (fun x hx => hdep x (by simp [hx]))
  have h2 : occ nw (t.nodes.drop (e + 1)) n = 0 := occ_zero_of_depots nw _ n (fun x hx => hdep x (by simp [hx]))
  omega

theorem remove_some_occ {nw : Network} {t t' : Tour} {a b : Nat} {path : List Nat}
    (h : Tour.remove nw t a b = .ok (some t', path)) (n : Nat) :
    occ nw t.nodes n = occ nw t'.nodes n + occ nw path n := by
  obtain ⟨s, e, _, _, hsp, hsome, _⟩ := remove_split h
  rw [hsome t' rfl]
  conv => lhs; rw [hsp]
  rw [occ_append, occ_append, occ_append]; omega

end RSSched.C10F
