/-
Props/C10Usage: the depot-usage clause of C10 and the spawn counts / balances of C09, for the model,
every history: the two vehicle sets stored per (depot, type) are duplicate-free and hold exactly the
vehicles of that type whose tour starts (resp. ends) in that depot.
-/
import RSSched.Props.C09CostsAll
namespace RSSched.C10U
open RSSched Schedule Network Tour Spec C15 C02 C13 C10T C10L C09C C10S C10F C10D C10Fit

/-- entry of a usage map under a (depot, type) key -/
def getK (u : DepotUsage) (k : Nat × Nat) : List Veh × List Veh := (assocGet? u k).getD ([], [])

/-- the start set (`true`) or the end set (`false`) of an entry -/
def side (b : Bool) (p : List Veh × List Veh) : List Veh := if b then p.1 else p.2

theorem usageGet_eq (u : DepotUsage) (d vt : Nat) : usageGet u d vt = getK u (d, vt) := rfl

theorem getK_set (u : DepotUsage) (k k' : Nat × Nat) (e : List Veh × List Veh) :
    getK (assocSet u k e) k' = if k' = k then e else getK u k' := by
  unfold getK; rw [assocGet?_assocSet]
  by_cases h : k' = k <;> simp [h]

theorem getK_modify (u : DepotUsage) (d vt : Nat) (f : List Veh × List Veh → List Veh × List Veh) (k' : Nat × Nat) :
    getK (usageModify u d vt f) k' = if k' = (d, vt) then f (getK u (d, vt)) else getK u k' := by
  unfold usageModify; rw [getK_set]; rfl

theorem mem_vehInsert (l : List Veh) (v w : Veh) : w ∈ vehInsert l v ↔ w = v ∨ w ∈ l := by
  unfold vehInsert
  split
  · rename_i h
    have hv : v ∈ l := by simpa using h
    constructor
    · intro hw; exact Or.inr hw
    · intro hw; rcases hw with e | hw
      · rw [e]; exact hv
      · exact hw
  · exact mem_insertSorted Veh.lt v w l

theorem nodup_vehInsert (l : List Veh) (v : Veh) (h : l.Nodup) : (vehInsert l v).Nodup := by
  unfold vehInsert
  split
  · exact h
  · rename_i hc
    have hv : v ∉ l := by simpa using hc
    exact ((insertSorted_perm Veh.lt v l).nodup_iff).mpr (List.nodup_cons.mpr ⟨hv, h⟩)

theorem mem_filter_ne (l : List Veh) (v w : Veh) : w ∈ l.filter (· != v) ↔ w ≠ v ∧ w ∈ l := by
  rw [List.mem_filter]; simp [and_comm]

/-! ### the two elementary updates of one side of one entry -/

def filt (b : Bool) (v : Veh) (p : List Veh × List Veh) : List Veh × List Veh :=
  if b then (p.1.filter (· != v), p.2) else (p.1, p.2.filter (· != v))

def ins (b : Bool) (v : Veh) (p : List Veh × List Veh) : List Veh × List Veh :=
  if b then (vehInsert p.1 v, p.2) else (p.1, vehInsert p.2 v)

theorem side_filt (b : Bool) (v : Veh) (p : List Veh × List Veh) :
    side b (filt b v p) = (side b p).filter (· != v) ∧ side (!b) (filt b v p) = side (!b) p := by
  cases b <;> simp [side, filt]

theorem side_ins (b : Bool) (v : Veh) (p : List Veh × List Veh) :
    side b (ins b v p) = vehInsert (side b p) v ∧ side (!b) (ins b v p) = side (!b) p := by
  cases b <;> simp [side, ins]

theorem mem_modify_filt (u : DepotUsage) (d vt : Nat) (b : Bool) (v w : Veh) (k : Nat × Nat) :
    w ∈ side b (getK (usageModify u d vt (filt b v)) k) ↔ (w ∈ side b (getK u k) ∧ ¬ (k = (d, vt) ∧ w = v)) := by
  rw [getK_modify]
  by_cases ek : k = (d, vt)
  · subst ek
    simp only [↓reduceIte, (side_filt b v _).1, mem_filter_ne, true_and]
    constructor
    · intro ⟨h1, h2⟩; exact ⟨h2, h1⟩
    · intro ⟨h1, h2⟩; exact ⟨h2, h1⟩
  · simp only [ek, ↓reduceIte, false_and, not_false_eq_true, and_true]

theorem mem_modify_ins (u : DepotUsage) (d vt : Nat) (b : Bool) (v w : Veh) (k : Nat × Nat) :
    w ∈ side b (getK (usageModify u d vt (ins b v)) k) ↔ (w ∈ side b (getK u k) ∨ (k = (d, vt) ∧ w = v)) := by
  rw [getK_modify]
  by_cases ek : k = (d, vt)
  · subst ek
    simp only [↓reduceIte, (side_ins b v _).1, mem_vehInsert, true_and]
    constructor
    · intro h; rcases h with h | h
      · exact Or.inr h
      · exact Or.inl h
    · intro h; rcases h with h | h
      · exact Or.inr h
      · exact Or.inl h
  · simp only [ek, ↓reduceIte, false_and, or_false]

theorem other_modify_filt (u : DepotUsage) (d vt : Nat) (b : Bool) (v : Veh) (k : Nat × Nat) :
    side (!b) (getK (usageModify u d vt (filt b v)) k) = side (!b) (getK u k) := by
  rw [getK_modify]
  by_cases ek : k = (d, vt)
  · subst ek; simp only [↓reduceIte, (side_filt b v _).2]
  · simp only [ek, ↓reduceIte]

theorem other_modify_ins (u : DepotUsage) (d vt : Nat) (b : Bool) (v : Veh) (k : Nat × Nat) :
    side (!b) (getK (usageModify u d vt (ins b v)) k) = side (!b) (getK u k) := by
  rw [getK_modify]
  by_cases ek : k = (d, vt)
  · subst ek; simp only [↓reduceIte, (side_ins b v _).2]
  · simp only [ek, ↓reduceIte]

theorem nodup_modify_filt (u : DepotUsage) (d vt : Nat) (b : Bool) (v : Veh) (k : Nat × Nat)
    (h : (side b (getK u k)).Nodup) : (side b (getK (usageModify u d vt (filt b v)) k)).Nodup := by
  rw [getK_modify]
  by_cases ek : k = (d, vt)
  · subst ek; simp only [↓reduceIte, (side_filt b v _).1]; exact List.Nodup.sublist List.filter_sublist h
  · simp only [ek, ↓reduceIte]; exact h

theorem nodup_modify_ins (u : DepotUsage) (d vt : Nat) (b : Bool) (v : Veh) (k : Nat × Nat)
    (h : (side b (getK u k)).Nodup) : (side b (getK (usageModify u d vt (ins b v)) k)).Nodup := by
  rw [getK_modify]
  by_cases ek : k = (d, vt)
  · subst ek; simp only [↓reduceIte, (side_ins b v _).1]; exact nodup_vehInsert _ _ h
  · simp only [ek, ↓reduceIte]; exact h

/-! ### `update_depot_usage_for_new_start_depot` / `…_end_depot` -/

def depotU (b : Bool) (nw : Network) (t : Tour) : R Nat := if b then Transition.startDepotU nw t else Transition.endDepotU nw t

/-- the key the vehicle is removed from -/
def Removed (nw : Network) (s : Schedule) (v : Veh) (vt : Nat) (b : Bool) (k : Nat × Nat) : Prop :=
  s.isVehicle v = true ∧ ∃ t dn, s.tourOf? v = some t ∧ depotU b nw t = .ok dn ∧ k = (nw.depotIdxOf dn, vt)

/-- the key the vehicle is put under -/
def Inserted (nw : Network) (vt : Nat) (newDepot : Option Nat) (k : Nat × Nat) : Prop :=
  ∃ dn, newDepot = some dn ∧ k = (nw.depotIdxOf dn, vt)

def removeSide (nw : Network) (s : Schedule) (u : DepotUsage) (v : Veh) (vt : Nat) (b : Bool) : R DepotUsage :=
  if s.isVehicle v then do
    let t ← unwrapO (s.tourOf? v) "tour_of(vehicle).unwrap()"
    let dn ← depotU b nw t
    if !((side b (usageGet u (nw.depotIdxOf dn) vt)).contains v) then .error (.panic "depot_usage: remove(&vehicle_id).unwrap()") else
    pure (usageModify u (nw.depotIdxOf dn) vt (filt b v))
  else pure u

def insertSide (nw : Network) (u : DepotUsage) (v : Veh) (vt : Nat) (b : Bool) (nd : Option Nat) : DepotUsage :=
  match nd with
  | some dn => usageModify u (nw.depotIdxOf dn) vt (ins b v)
  | none => u

/-- `update_depot_usage_for_new_…_depot` = take the vehicle out of its old set, put it into its new one -/
theorem updateUsageSide_eq (nw : Network) (s : Schedule) (u : DepotUsage) (v : Veh) (vt : Nat) (b : Bool) (nd : Option Nat) :
    updateUsageSide nw s u v vt b nd = (removeSide nw s u v vt b >>= fun u1 => pure (insertSide nw u1 v vt b nd)) := by
  unfold updateUsageSide removeSide insertSide depotU side filt ins
  cases b <;> cases nd <;> by_cases hv : s.isVehicle v = true <;> simp only [hv, Bool.false_eq_true, ↓reduceIte] <;>
    (try rfl) <;>
    (cases unwrapO (s.tourOf? v) "tour_of(vehicle).unwrap()" with
     | error e => rfl
     | ok t =>
       simp only [bind, Except.bind]
       first
       | (cases Transition.endDepotU nw t with
          | error e => rfl
          | ok dn => simp only []; split <;> rfl)
       | (cases Transition.startDepotU nw t with
          | error e => rfl
          | ok dn => simp only []; split <;> rfl))

theorem removeSide_spec {nw : Network} {s : Schedule} {u u1 : DepotUsage} {v : Veh} {vt : Nat} {b : Bool}
    (h1 : removeSide nw s u v vt b = .ok u1) :
    (∀ k w, w ∈ side b (getK u1 k) ↔ (w ∈ side b (getK u k) ∧ ¬ (Removed nw s v vt b k ∧ w = v))) ∧
    (∀ k, side (!b) (getK u1 k) = side (!b) (getK u k)) ∧
    (∀ k, (side b (getK u k)).Nodup → (side b (getK u1 k)).Nodup) := by
  unfold removeSide at h1
  split at h1
  · rename_i hv
    obtain ⟨t, ht, h1⟩ := bind_ok h1
    obtain ⟨dn, hdn, h1⟩ := bind_ok h1
    split at h1
    · cases h1
    · simp only [pure, Except.pure, Except.ok.injEq] at h1
      subst h1
      refine ⟨fun k w => ?_, fun k => other_modify_filt _ _ _ _ _ _, fun k hk => nodup_modify_filt _ _ _ _ _ _ hk⟩
      rw [mem_modify_filt]
      constructor
      · intro ⟨hw, hne⟩
        refine ⟨hw, fun ⟨hr, hwv⟩ => hne ⟨?_, hwv⟩⟩
        obtain ⟨_, t', dn', ht', hdn'', hk⟩ := hr
        rw [unwrapO_ok ht] at ht'; cases ht'
        rw [hdn] at hdn''; cases hdn''
        exact hk
      · intro ⟨hw, hne⟩
        exact ⟨hw, fun ⟨hk, hwv⟩ => hne ⟨⟨hv, t, dn, unwrapO_ok ht, hdn, hk⟩, hwv⟩⟩
  · rename_i hv
    simp only [pure, Except.pure, Except.ok.injEq] at h1
    subst h1
    refine ⟨fun k w => ?_, fun k => rfl, fun k hk => hk⟩
    constructor
    · intro hw; exact ⟨hw, fun ⟨hr, _⟩ => hv hr.1⟩
    · intro ⟨hw, _⟩; exact hw

theorem insertSide_spec (nw : Network) (u1 : DepotUsage) (v : Veh) (vt : Nat) (b : Bool) (nd : Option Nat) :
    (∀ k w, w ∈ side b (getK (insertSide nw u1 v vt b nd) k) ↔ (w ∈ side b (getK u1 k) ∨ (Inserted nw vt nd k ∧ w = v))) ∧
    (∀ k, side (!b) (getK (insertSide nw u1 v vt b nd) k) = side (!b) (getK u1 k)) ∧
    (∀ k, (side b (getK u1 k)).Nodup → (side b (getK (insertSide nw u1 v vt b nd) k)).Nodup) := by
  unfold insertSide
  cases nd with
  | none =>
    refine ⟨fun k w => ?_, fun k => rfl, fun k hk => hk⟩
    constructor
    · intro hw; exact Or.inl hw
    · intro hw; rcases hw with hw | ⟨⟨dn, hdn, _⟩, _⟩
      · exact hw
      · cases hdn
  | some dn =>
    refine ⟨fun k w => ?_, fun k => other_modify_ins _ _ _ _ _ _, fun k hk => nodup_modify_ins _ _ _ _ _ _ hk⟩
    rw [mem_modify_ins]
    constructor
    · intro hw; rcases hw with hw | ⟨hk, hwv⟩
      · exact Or.inl hw
      · exact Or.inr ⟨⟨dn, rfl, hk⟩, hwv⟩
    · intro hw; rcases hw with hw | ⟨⟨dn', hdn', hk⟩, hwv⟩
      · exact Or.inl hw
      · cases hdn'; exact Or.inr ⟨hk, hwv⟩

theorem updateUsageSide_spec {nw : Network} {s : Schedule} {u u' : DepotUsage} {v : Veh} {vt : Nat} {b : Bool}
    {newDepot : Option Nat} (h : updateUsageSide nw s u v vt b newDepot = .ok u') :
    (∀ k w, w ∈ side b (getK u' k) ↔
      ((w ∈ side b (getK u k) ∧ ¬ (Removed nw s v vt b k ∧ w = v)) ∨ (Inserted nw vt newDepot k ∧ w = v))) ∧
    (∀ k, side (!b) (getK u' k) = side (!b) (getK u k)) ∧
    (∀ k, (side b (getK u k)).Nodup → (side b (getK u' k)).Nodup) := by
  rw [updateUsageSide_eq] at h
  obtain ⟨u1, h1, h⟩ := bind_ok h
  simp only [pure, Except.pure, Except.ok.injEq] at h
  subst h
  obtain ⟨r1, r2, r3⟩ := removeSide_spec h1
  obtain ⟨i1, i2, i3⟩ := insertSide_spec nw u1 v vt b newDepot
  refine ⟨fun k w => ?_, fun k => by rw [i2, r2], fun k hk => i3 k (r3 k hk)⟩
  rw [i1, r1]

/-! ### `update_depot_usage` for one vehicle -/

/-- the key under which a vehicle with type `ovt` and tour `ot` belongs on side `b` -/
def HomeE (nw : Network) (ovt : Option Nat) (ot : Option Tour) (b : Bool) (k : Nat × Nat) : Prop :=
  ∃ t vt dn, ot = some t ∧ ovt = some vt ∧ depotU b nw t = .ok dn ∧ k = (nw.depotIdxOf dn, vt)

def Home (nw : Network) (V : List (Veh × Nat)) (T : Tours) (b : Bool) (v : Veh) (k : Nat × Nat) : Prop :=
  HomeE nw (assocGet? V v) (assocGet? T v) b k

def goU (nw : Network) (s : Schedule) (u : DepotUsage) (v : Veh) (vt : Nat) (newTour : Option Tour) : R DepotUsage :=
  match newTour with
  | none => updateUsageSide nw s u v vt true none >>= fun u1 => updateUsageSide nw s u1 v vt false none
  | some t => Transition.startDepotU nw t >>= fun ns => Transition.endDepotU nw t >>= fun ne =>
      updateUsageSide nw s u v vt true (some ns) >>= fun u1 => updateUsageSide nw s u1 v vt false (some ne)

theorem updateDepotUsage_eq (nw : Network) (s : Schedule) (u : DepotUsage) (V' : List (Veh × Nat)) (T' : Tours) (v : Veh) :
    updateDepotUsage nw s u V' T' v =
      match assocGet? V' v with
      | some vt => goU nw s u v vt (assocGet? T' v)
      | none => match s.typeOf? v with
        | some vt => goU nw s u v vt none
        | none => pure u := by
  unfold updateDepotUsage goU
  cases assocGet? V' v with
  | some vt =>
    cases assocGet? T' v with
    | none => rfl
    | some t =>
      simp only []
      cases Transition.startDepotU nw t with
      | error e => rfl
      | ok ns =>
        cases Transition.endDepotU nw t with
        | error e => rfl
        | ok ne => rfl
  | none =>
    cases s.typeOf? v with
    | none => rfl
    | some vt => rfl

/-- the two calls of `go`, with the depot nodes of the new tour made explicit -/
theorem goU_inv {nw : Network} {s : Schedule} {u u' : DepotUsage} {v : Veh} {vt : Nat} {newTour : Option Tour}
    (h : goU nw s u v vt newTour = .ok u') :
    ∃ ns ne u1, updateUsageSide nw s u v vt true ns = .ok u1 ∧ updateUsageSide nw s u1 v vt false ne = .ok u' ∧
      (∀ k, Inserted nw vt ns k ↔ HomeE nw (some vt) newTour true k) ∧
      (∀ k, Inserted nw vt ne k ↔ HomeE nw (some vt) newTour false k) := by
  unfold goU at h
  cases newTour with
  | none =>
    simp only at h
    obtain ⟨u1, h1, h2⟩ := bind_ok h
    refine ⟨none, none, u1, h1, h2, fun k => ?_, fun k => ?_⟩
    · constructor
      · intro ⟨dn, hdn, _⟩; cases hdn
      · intro ⟨t, _, _, ht, _⟩; cases ht
    · constructor
      · intro ⟨dn, hdn, _⟩; cases hdn
      · intro ⟨t, _, _, ht, _⟩; cases ht
  | some t =>
    simp only at h
    obtain ⟨ns, hns, h⟩ := bind_ok h
    obtain ⟨ne, hne, h⟩ := bind_ok h
    obtain ⟨u1, h1, h2⟩ := bind_ok h
    refine ⟨some ns, some ne, u1, h1, h2, fun k => ?_, fun k => ?_⟩
    · constructor
      · intro ⟨dn, hdn, hk⟩; cases hdn; exact ⟨t, vt, ns, rfl, rfl, hns, hk⟩
      · intro ⟨t', vt', dn, ht', hvt', hdn, hk⟩
        cases ht'; cases hvt'
        have : depotU true nw t = Transition.startDepotU nw t := rfl
        rw [this, hns] at hdn; cases hdn
        exact ⟨ns, rfl, hk⟩
    · constructor
      · intro ⟨dn, hdn, hk⟩; cases hdn; exact ⟨t, vt, ne, rfl, rfl, hne, hk⟩
      · intro ⟨t', vt', dn, ht', hvt', hdn, hk⟩
        cases ht'; cases hvt'
        have : depotU false nw t = Transition.endDepotU nw t := rfl
        rw [this, hne] at hdn; cases hdn
        exact ⟨ne, rfl, hk⟩

theorem updateDepotUsage_spec {nw : Network} {s : Schedule} {u u' : DepotUsage} {V' : List (Veh × Nat)} {T' : Tours}
    {v : Veh} (hi : ListInv s)
    (hpre : ∀ b k, v ∈ side b (getK u k) ↔ Home nw s.vehicles s.tours b v k)
    (htype : ∀ vt, assocGet? V' v = some vt → s.isVehicle v = true → assocGet? s.vehicles v = some vt)
    (h : updateDepotUsage nw s u V' T' v = .ok u') :
    (∀ b k, v ∈ side b (getK u' k) ↔ Home nw V' T' b v k) ∧
    (∀ b k w, w ≠ v → (w ∈ side b (getK u' k) ↔ w ∈ side b (getK u k))) ∧
    (∀ b k, (side b (getK u k)).Nodup → (side b (getK u' k)).Nodup) := by
  have hgo : ∀ (vt : Nat) (newTour : Option Tour),
      (s.isVehicle v = true → assocGet? s.vehicles v = some vt) →
      goU nw s u v vt newTour = .ok u' →
      (∀ b k, v ∈ side b (getK u' k) ↔ HomeE nw (some vt) newTour b k) ∧
      (∀ b k w, w ≠ v → (w ∈ side b (getK u' k) ↔ w ∈ side b (getK u k))) ∧
      (∀ b k, (side b (getK u k)).Nodup → (side b (getK u' k)).Nodup) := by
    intro vt newTour hty hh
    obtain ⟨ns, ne, u1, h1, h2, hinsS, hinsE⟩ := goU_inv hh
    obtain ⟨a1, a2, a3⟩ := updateUsageSide_spec h1
    obtain ⟨b1, b2, b3⟩ := updateUsageSide_spec h2
    -- what "removed" means under the listing invariant
    have hrem : ∀ b k, Removed nw s v vt b k ↔ Home nw s.vehicles s.tours b v k := by
      intro b k
      constructor
      · intro ⟨hv, t, dn, ht, hdn, hk⟩
        have := (tourOf_vehicle hi hv).1
        rw [this] at ht
        exact ⟨t, vt, dn, ht, hty hv, hdn, hk⟩
      · intro ⟨t, vt0, dn, ht, hvt0, hdn, hk⟩
        have hv : s.isVehicle v = true := by unfold Schedule.isVehicle; rw [hvt0]; rfl
        have e := hty hv
        rw [hvt0] at e; cases e
        refine ⟨hv, t, dn, ?_, hdn, hk⟩
        rw [(tourOf_vehicle hi hv).1]; exact ht
    refine ⟨fun b k => ?_, fun b k w hw => ?_, fun b k hk => ?_⟩
    · cases b with
      | true =>
        -- start side: changed by the first call, untouched by the second
        have e2 := b2 k
        simp only [Bool.not_false] at e2
        rw [e2, a1, hrem, hpre, hinsS]
        constructor
        · intro hh'; rcases hh' with ⟨hm, hn⟩ | ⟨hh', _⟩
          · exact absurd ⟨hm, rfl⟩ hn
          · exact hh'
        · intro hh'; exact Or.inr ⟨hh', rfl⟩
      | false =>
        have e1 := a2 k
        simp only [Bool.not_true] at e1
        rw [b1, hrem, e1, hpre, hinsE]
        constructor
        · intro hh'; rcases hh' with ⟨hm, hn⟩ | ⟨hh', _⟩
          · exact absurd ⟨hm, rfl⟩ hn
          · exact hh'
        · intro hh'; exact Or.inr ⟨hh', rfl⟩
    · cases b with
      | true =>
        have e2 := b2 k
        simp only [Bool.not_false] at e2
        rw [e2, a1]
        constructor
        · intro hh'; rcases hh' with ⟨hm, _⟩ | ⟨_, e⟩
          · exact hm
          · exact absurd e hw
        · intro hm; exact Or.inl ⟨hm, fun ⟨_, e⟩ => hw e⟩
      | false =>
        have e1 := a2 k
        simp only [Bool.not_true] at e1
        rw [b1, e1]
        constructor
        · intro hh'; rcases hh' with ⟨hm, _⟩ | ⟨_, e⟩
          · exact hm
          · exact absurd e hw
        · intro hm; exact Or.inl ⟨hm, fun ⟨_, e⟩ => hw e⟩
    · cases b with
      | true =>
        have e2 := b2 k
        simp only [Bool.not_false] at e2
        rw [e2]; exact a3 k hk
      | false =>
        have e1 := a2 k
        simp only [Bool.not_true] at e1
        apply b3 k
        rw [e1]; exact hk
  rw [updateDepotUsage_eq] at h
  unfold Home
  split at h
  · rename_i vt hvt
    rw [hvt]
    exact hgo vt (assocGet? T' v) (fun hv => htype vt hvt hv) h
  · rename_i hvt
    rw [hvt]
    split at h
    · rename_i vt hst
      obtain ⟨g1, g2, g3⟩ := hgo vt none (fun _ => hst) h
      refine ⟨fun b k => ?_, g2, g3⟩
      rw [g1]
      constructor
      · intro ⟨t, _, _, ht, _⟩; cases ht
      · intro ⟨_, _, _, _, hv, _⟩; cases hv
    · rename_i hst
      simp only [pure, Except.pure, Except.ok.injEq] at h
      subst h
      refine ⟨fun b k => ?_, fun _ _ _ _ => Iff.rfl, fun _ _ hk => hk⟩
      rw [hpre]
      constructor
      · intro ⟨_, vt0, _, _, hv0, _⟩
        unfold Schedule.typeOf? at hst; rw [hst] at hv0; cases hv0
      · intro ⟨_, _, _, _, hv, _⟩; cases hv

/-! ### the invariant -/

structure UsageOK (nw : Network) (V : List (Veh × Nat)) (T : Tours) (u : DepotUsage) : Prop where
  mem : ∀ b k v, v ∈ side b (getK u k) ↔ Home nw V T b v k
  nodup : ∀ b k, (side b (getK u k)).Nodup

/-- **the depot-usage clause**: per (depot, type) the start (end) set holds exactly the vehicles of
    the type whose tour starts (ends) in the depot, each once -/
def UsageInv (nw : Network) (s : Schedule) : Prop := UsageOK nw s.vehicles s.tours s.depotUsage

theorem home_congr {nw : Network} {V V' : List (Veh × Nat)} {T T' : Tours} {w : Veh}
    (hV : assocGet? V' w = assocGet? V w) (hT : assocGet? T' w = assocGet? T w) (b : Bool) (k : Nat × Nat) :
    Home nw V' T' b w k ↔ Home nw V T b w k := by
  unfold Home; rw [hV, hT]

/-- one vehicle's entries are brought up to date -/
theorem usage_update {nw : Network} {s : Schedule} {Vc V' : List (Veh × Nat)} {Tc T' : Tours} {uc u' : DepotUsage}
    {v : Veh} (hi : ListInv s) (hok : UsageOK nw Vc Tc uc)
    (hvV : assocGet? Vc v = assocGet? s.vehicles v) (hvT : assocGet? Tc v = assocGet? s.tours v)
    (hV' : ∀ w, w ≠ v → assocGet? V' w = assocGet? Vc w) (hT' : ∀ w, w ≠ v → assocGet? T' w = assocGet? Tc w)
    (htype : ∀ vt, assocGet? V' v = some vt → s.isVehicle v = true → assocGet? s.vehicles v = some vt)
    (h : updateDepotUsage nw s uc V' T' v = .ok u') : UsageOK nw V' T' u' := by
  have hpre : ∀ b k, v ∈ side b (getK uc k) ↔ Home nw s.vehicles s.tours b v k := by
    intro b k
    rw [hok.mem b k v]
    exact home_congr hvV hvT b k
  obtain ⟨g1, g2, g3⟩ := updateDepotUsage_spec hi hpre htype h
  refine ⟨fun b k w => ?_, fun b k => g3 b k (hok.nodup b k)⟩
  by_cases e : w = v
  · subst e; exact g1 b k
  · rw [g2 b k w e, hok.mem b k w]
    exact (home_congr (hV' w e) (hT' w e) b k).symm

theorem get_set_ne {κ ν : Type} [DecidableEq κ] (l : List (κ × ν)) (k k' : κ) (x : ν) (h : k' ≠ k) :
    assocGet? (assocSet l k x) k' = assocGet? l k' := by
  rw [assocGet?_assocSet]; simp [h]

theorem get_erase_ne {κ ν : Type} [DecidableEq κ] (l : List (κ × ν)) (k k' : κ) (h : k' ≠ k) :
    assocGet? (assocErase l k) k' = assocGet? l k' := by
  rw [assocGet?_assocErase]; simp [h]

theorem empty_usage (nw : Network) : UsageInv nw (Schedule.empty nw) := by
  refine ⟨fun b k v => ?_, fun b k => ?_⟩
  · have : getK (Schedule.empty nw).depotUsage k = ([], []) := by
      unfold getK; simp [Schedule.empty, assocGet?_nil]
    rw [this]
    constructor
    · intro h; cases b <;> simp [side] at h
    · intro ⟨t, _, _, ht, _⟩; simp [Schedule.empty, assocGet?_nil] at ht
  · have : getK (Schedule.empty nw).depotUsage k = ([], []) := by
      unfold getK; simp [Schedule.empty, assocGet?_nil]
    rw [this]; cases b <;> simp [side]

theorem spawn_usage {nw : Network} {s s' : Schedule} {vt : Nat} {path : List Nat} {v : Veh}
    (hi : ListInv s) (hu : UsageInv nw s) (h : spawnVehicleForPath nw s vt path = .ok (s', v)) : UsageInv nw s' := by
  unfold spawnVehicleForPath at h
  inv_do h
  all_goals (try contradiction)
  all_goals (try (cases h))
  all_goals (try (simp only [pure, Except.pure, Except.ok.injEq] at *))
  all_goals (try subst_vars)
  all_goals (
    refine usage_update (v := Veh.real s.counter) hi hu rfl rfl (fun w hw => get_set_ne _ _ _ _ hw)
      (fun w hw => get_set_ne _ _ _ _ hw) ?_ (by assumption)
    intro vt' _ hv
    have := C09U.fresh_not_vehicle hi
    unfold Schedule.isVehicle at hv
    rw [hv] at this; cases this)

theorem delete_usage {nw : Network} {s s' : Schedule} {v : Veh}
    (hi : ListInv s) (hu : UsageInv nw s) (h : replaceVehicleByDummy nw s v = .ok s') : UsageInv nw s' := by
  unfold replaceVehicleByDummy at h
  inv_do h
  all_goals (try contradiction)
  all_goals (try (cases h))
  all_goals (try (simp only [pure, Except.pure, Except.ok.injEq] at *))
  all_goals (try subst_vars)
  all_goals (
    refine usage_update (v := v) hi hu rfl rfl (fun w hw => get_erase_ne _ _ _ hw)
      (fun w hw => get_erase_ne _ _ _ hw) ?_ (by assumption)
    intro vt' hv' _
    rw [assocGet?_assocErase] at hv'; simp at hv')

theorem addPath_usage {nw : Network} {s s' : Schedule} {v : Veh} {path : List Nat} {rm : Option (List Nat)}
    (hi : ListInv s) (hu : UsageInv nw s) (h : addPathToVehicleTour nw s v path = .ok (s', rm)) : UsageInv nw s' := by
  unfold addPathToVehicleTour at h
  inv_do h
  all_goals (try contradiction)
  all_goals (try (cases h))
  all_goals (try (simp only [pure, Except.pure, Except.ok.injEq] at *))
  all_goals (try subst_vars)
  all_goals (
    exact usage_update (v := v) hi hu rfl rfl (fun w _ => rfl)
      (fun w hw => get_set_ne _ _ _ _ hw) (fun vt' hv' _ => hv') (by assumption))

theorem rmSeg_usage {nw : Network} {s s' : Schedule} {v : Veh} {a b : Nat}
    (hi : ListInv s) (hd : DummyInv s) (hu : UsageInv nw s) (h : removeSegment nw s v a b = .ok s') :
    UsageInv nw s' := by
  unfold removeSegment at h
  inv_do h
  all_goals (try contradiction)
  all_goals (try (cases h))
  all_goals (first
    | exact delete_usage hi hu (by assumption)
    | (simp only [pure, Except.pure, Except.ok.injEq] at *
       subst_vars
       have hv' : s.isVehicle v = true := by simpa using (by assumption : ¬ (!s.isVehicle v) = true)
       have hnd := vehicle_not_dummy hi hd hv'
       have hutc := utc_tours (by assumption : updateTourAndCosts s s.tours _ _ v _ = .ok _)
       simp only [hnd, Bool.false_eq_true, ↓reduceIte] at hutc
       refine usage_update (v := v) hi hu rfl rfl (fun w _ => rfl) ?_ (fun vt' hv'' _ => hv'') (by assumption)
       intro w hw
       show assocGet? _ w = assocGet? s.tours w
       rw [hutc]; exact get_set_ne _ _ _ _ hw))

theorem utc_tours_ne {s : Schedule} {tours dummyTours : Tours} {costs : Nat} {v : Veh} {t : Tour}
    {r : Tours × Tours × Nat} (h : updateTourAndCosts s tours dummyTours costs v t = .ok r) (w : Veh) (hw : w ≠ v) :
    assocGet? r.1 w = assocGet? tours w := by
  rw [utc_tours h]
  split
  · rfl
  · exact get_set_ne _ _ _ _ hw

/-- provider and receiver of a reassignment are brought up to date one after the other -/
theorem two_updates {nw : Network} {s : Schedule} {V1 : List (Veh × Nat)} {T1 T2 : Tours} {u1 u2 : DepotUsage}
    {p r : Veh} (hi : ListInv s) (hu : UsageInv nw s) (hne : p ≠ r)
    (hV1 : ∀ w, w ≠ p → assocGet? V1 w = assocGet? s.vehicles w)
    (hT1 : ∀ w, w ≠ p → assocGet? T1 w = assocGet? s.tours w)
    (hT2 : ∀ w, w ≠ r → assocGet? T2 w = assocGet? T1 w)
    (htp : ∀ vt, assocGet? V1 p = some vt → s.isVehicle p = true → assocGet? s.vehicles p = some vt)
    (h1 : updateDepotUsage nw s s.depotUsage V1 T1 p = .ok u1)
    (h2 : updateDepotUsage nw s u1 V1 T2 r = .ok u2) : UsageOK nw V1 T2 u2 := by
  have step1 := usage_update (v := p) hi hu rfl rfl hV1 hT1 htp h1
  have hr : r ≠ p := fun e => hne e.symm
  exact usage_update (v := r) hi step1 (hV1 r hr) (hT1 r hr) (fun _ _ => rfl) hT2
    (fun vt hv _ => by rw [← hV1 r hr]; exact hv) h2

theorem updateTours_usage {nw : Network} {s : Schedule} {w' : Work} {p r : Veh} {newProv : Option Tour}
    {newRecv : Tour} {moved : List Nat} (hi : ListInv s) (hu : UsageInv nw s) (hne : p ≠ r)
    (h : updateTours nw s (Work.ofSchedule s) (some p) newProv r newRecv moved = .ok w') :
    UsageOK nw w'.vehicles w'.tours w'.usage := by
  unfold updateTours at h
  dsimp only at h
  inv_do h
  all_goals (try contradiction)
  all_goals (try (cases h))
  all_goals (try (simp only [pure, Except.pure, Except.ok.injEq] at *))
  all_goals (try subst_vars)
  all_goals (
    refine two_updates (p := p) (r := r) hi hu hne ?_ ?_ ?_ ?_ (by assumption) (by assumption)
    · first
      | (intro w hw; rfl)
      | (intro w hw; exact get_erase_ne _ _ _ hw)
    · first
      | (intro w hw; rfl)
      | (intro w hw; exact get_erase_ne _ _ _ hw)
      | (intro w hw; exact utc_tours_ne (by assumption) w hw)
    · intro w hw; exact utc_tours_ne (by assumption) w hw
    · first
      | (intro vt hv _; exact hv)
      | (intro vt hv _; rw [assocGet?_assocErase] at hv; simp at hv))

theorem fit_usage {nw : Network} {s s' : Schedule} {p r : Veh} {a b : Nat}
    (hi : ListInv s) (hu : UsageInv nw s) (hne : p ≠ r) (h : fitReassign nw s p r a b = .ok s') : UsageInv nw s' := by
  unfold fitReassign at h
  inv_do h
  all_goals (try contradiction)
  all_goals (try (cases h))
  all_goals (try (simp only [pure, Except.pure, Except.ok.injEq] at *))
  all_goals (try subst_vars)
  all_goals (exact updateTours_usage (p := p) (r := r) hi hu hne (by assumption))

theorem override_usage {nw : Network} {s s' : Schedule} {p r : Veh} {a b : Nat} {d : Option Veh}
    (hi : ListInv s) (hu : UsageInv nw s) (hne : p ≠ r) (h : overrideReassign nw s p r a b = .ok (s', d)) :
    UsageInv nw s' := by
  unfold overrideReassign at h
  inv_do h
  all_goals (try contradiction)
  all_goals (try (cases h))
  all_goals (try (simp only [pure, Except.pure, Except.ok.injEq] at *))
  all_goals (try subst_vars)
  all_goals (exact updateTours_usage (p := p) (r := r) hi hu hne (by assumption))

theorem deleteDummy_usage_same {s s1 : Schedule} {d : Veh} (h : deleteDummy s d = .ok s1) :
    s1.depotUsage = s.depotUsage := by
  unfold deleteDummy at h
  inv_do h
  all_goals (try contradiction)
  all_goals (try (cases h))
  all_goals rfl

theorem dummySpawn_usage {nw : Network} {s s' : Schedule} {d : Veh} {vt : Nat} {v : Veh}
    (hi : ListInv s) (hu : UsageInv nw s) (h : spawnToReplaceDummy nw s d vt = .ok (s', v)) : UsageInv nw s' := by
  unfold spawnToReplaceDummy at h
  inv_do h
  all_goals (try contradiction)
  all_goals (try (cases h))
  all_goals (
    rename_i s1 hdel
    have hcore := deleteDummy_core hdel
    have hV : s1.vehicles = s.vehicles := congrArg Core.vehicles hcore
    have hT : s1.tours = s.tours := congrArg Core.tours hcore
    have hU := deleteDummy_usage_same hdel
    refine spawn_usage (deleteDummy_listInv hi hdel) ?_ h
    unfold UsageInv; rw [hV, hT, hU]; exact hu)

/-! ### the folds that re-choose end depots -/

theorem fold_usage (nw : Network) (s : Schedule) (hi : ListInv s) (F : Acc → Veh → R Acc)
    (hF : ∀ acc v acc', F acc v = .ok acc' →
      ∃ nt, acc'.1 = assocSet acc.1 v nt ∧ updateDepotUsage nw s acc.2.1 s.vehicles acc'.1 v = .ok acc'.2.1) :
    ∀ (L : List Veh), L.Nodup → ∀ (acc acc' : Acc), UsageOK nw s.vehicles acc.1 acc.2.1 →
      (∀ w ∈ L, assocGet? acc.1 w = assocGet? s.tours w) → L.foldlM F acc = .ok acc' →
      UsageOK nw s.vehicles acc'.1 acc'.2.1
  | [], _, acc, acc', hok, _, h => by
    simp only [List.foldlM_nil, pure, Except.pure, Except.ok.injEq] at h
    rw [← h]; exact hok
  | x :: xs, hnd, acc, acc', hok, hsame, h => by
    rw [List.foldlM_cons] at h
    obtain ⟨a1, h1, h⟩ := bind_ok h
    obtain ⟨nt, hset, hupd⟩ := hF acc x a1 h1
    have hnd' := List.nodup_cons.mp hnd
    have hok1 : UsageOK nw s.vehicles a1.1 a1.2.1 :=
      usage_update (v := x) hi hok rfl (hsame x (by simp)) (fun _ _ => rfl)
        (fun w hw => by rw [hset]; exact get_set_ne _ _ _ _ hw) (fun vt hv _ => hv) hupd
    refine fold_usage nw s hi F hF xs hnd'.2 a1 acc' hok1 ?_ h
    intro w hw
    have hne : w ≠ x := fun e => hnd'.1 (e ▸ hw)
    rw [hset, get_set_ne _ _ _ _ hne]
    exact hsame w (by simp [hw])

theorem greedyStep_upd {nw : Network} {s : Schedule} {acc acc' : Acc} {v : Veh}
    (h : greedyStep nw s acc v = .ok acc') :
    ∃ nt, acc'.1 = assocSet acc.1 v nt ∧ updateDepotUsage nw s acc.2.1 s.vehicles acc'.1 v = .ok acc'.2.1 := by
  obtain ⟨tours, u, costs⟩ := acc
  unfold greedyStep at h
  dsimp only at h
  obtain ⟨t, ht, h⟩ := bind_ok h
  obtain ⟨lnd, _, h⟩ := bind_ok h
  split at h
  · obtain ⟨ne, _, h⟩ := bind_ok h
    obtain ⟨nt, _, h⟩ := bind_ok h
    obtain ⟨c, hc, h⟩ := bind_ok h
    obtain ⟨u', hu', h⟩ := bind_ok h
    simp only [pure, Except.pure, Except.ok.injEq] at h
    subst h
    exact ⟨nt, rfl, hu'⟩
  · simp [bind, Except.bind] at h

theorem endStep_upd {nw : Network} {s : Schedule} {acc acc' : Acc} {v : Veh}
    (h : C05.endStep nw s acc v = .ok acc') :
    ∃ nt, acc'.1 = assocSet acc.1 v nt ∧ updateDepotUsage nw s acc.2.1 s.vehicles acc'.1 v = .ok acc'.2.1 := by
  obtain ⟨tours, u, costs⟩ := acc
  unfold C05.endStep at h
  dsimp only at h
  obtain ⟨t, ht, h⟩ := bind_ok h
  obtain ⟨vt, hvt, h⟩ := bind_ok h
  obtain ⟨tr, htr, h⟩ := bind_ok h
  obtain ⟨next, hnext, h⟩ := bind_ok h
  obtain ⟨ntour, hntour, h⟩ := bind_ok h
  obtain ⟨sd, hsd, h⟩ := bind_ok h
  obtain ⟨nt, hnt, h⟩ := bind_ok h
  obtain ⟨c, _, h⟩ := bind_ok h
  obtain ⟨u', hu', h⟩ := bind_ok h
  simp only [pure, Except.pure, Except.ok.injEq] at h
  subst h
  exact ⟨nt, rfl, hu'⟩

theorem endConsistent_usage {nw : Network} {s s' : Schedule} (hi : ListInv s) (hu : UsageInv nw s)
    (h : reassignEndDepotsConsistent nw s = .ok s') : UsageInv nw s' := by
  have hunf : reassignEndDepotsConsistent nw s = (do
      let (tours, usage, cst) ← (s.vehiclesAll nw).foldlM (C05.endStep nw s) (s.tours, s.depotUsage, s.costs)
      let (trans, viol) ← updateTransitionsFast nw s s.vehicles tours (s.vehiclesAll nw) [] s.transitions s.violation
      pure { s with tours, transitions := trans, depotUsage := usage, violation := viol, costs := cst }) := rfl
  rw [hunf] at h
  obtain ⟨⟨tours, usage, cst⟩, hfold, h⟩ := bind_ok h
  dsimp only at h
  obtain ⟨⟨trans, viol⟩, _, h⟩ := bind_ok h
  simp only [pure, Except.pure, Except.ok.injEq] at h
  rw [← h]
  exact fold_usage nw s hi (C05.endStep nw s) (fun acc v acc' hstep => endStep_upd hstep)
    (s.vehiclesAll nw) (vehiclesAll_nodup hi) (s.tours, s.depotUsage, s.costs) (tours, usage, cst) hu
    (fun _ _ => rfl) hfold

theorem endGreedy_usage {nw : Network} {s s' : Schedule} (hi : ListInv s) (hu : UsageInv nw s)
    (h : reassignEndDepotsGreedily nw s = .ok s') : UsageInv nw s' := by
  have hunf : reassignEndDepotsGreedily nw s = (do
      let (tours, usage, cst) ← (s.vehiclesAll nw).foldlM (greedyStep nw s) (s.tours, s.depotUsage, s.costs)
      let (trans, viol) ← recomputeTransitions nw s.idsByType tours nw.typeIdxs s.transitions s.violation
      pure { s with tours, transitions := trans, depotUsage := usage, violation := viol, costs := cst }) := rfl
  rw [hunf] at h
  obtain ⟨⟨tours, usage, cst⟩, hfold, h⟩ := bind_ok h
  dsimp only at h
  obtain ⟨⟨trans, viol⟩, _, h⟩ := bind_ok h
  simp only [pure, Except.pure, Except.ok.injEq] at h
  rw [← h]
  exact fold_usage nw s hi (greedyStep nw s) (fun acc v acc' hstep => greedyStep_upd hstep)
    (s.vehiclesAll nw) (vehiclesAll_nodup hi) (s.tours, s.depotUsage, s.costs) (tours, usage, cst) hu
    (fun _ _ => rfl) hfold

/-! ### `improve_depots`: take the listed vehicles out of their depots, then put each where it goes -/

theorem getK_of_get {u : DepotUsage} {k : Nat × Nat} {e : List Veh × List Veh} (h : assocGet? u k = some e) :
    getK u k = e := by unfold getK; rw [h]; rfl

/-- `takeOut` as two elementary updates -/
theorem takeOut_eq {nw : Network} {s : Schedule} {u u' : DepotUsage} {v : Veh} (h : C09A.takeOut nw s u v = .ok u') :
    ∃ vt t sd ed, s.typeOf? v = some vt ∧ s.tourOf? v = some t ∧ Transition.startDepotU nw t = .ok sd ∧
      Transition.endDepotU nw t = .ok ed ∧
      u' = usageModify (usageModify u (nw.depotIdxOf sd) vt (filt true v)) (nw.depotIdxOf ed) vt (filt false v) := by
  unfold C09A.takeOut at h
  obtain ⟨vt, hvt, h⟩ := bind_ok h
  obtain ⟨t, ht, h⟩ := bind_ok h
  obtain ⟨sd, hsd, h⟩ := bind_ok h
  obtain ⟨ed, hed, h⟩ := bind_ok h
  dsimp only at h
  obtain ⟨e1, he1, h⟩ := bind_ok h
  split at h
  · cases h
  · obtain ⟨e2, he2, h⟩ := bind_ok h
    split at h
    · cases h
    · simp only [pure, Except.pure, Except.ok.injEq] at h
      subst h
      refine ⟨vt, t, sd, ed, unwrapO_ok hvt, unwrapO_ok ht, hsd, hed, ?_⟩
      have g1 : usageGet u (nw.depotIdxOf sd) vt = e1 := getK_of_get (unwrapO_ok he1)
      have hm1 : usageModify u (nw.depotIdxOf sd) vt (filt true v)
          = assocSet u (nw.depotIdxOf sd, vt) (e1.1.filter (· != v), e1.2) := by
        unfold usageModify; rw [g1]; rfl
      rw [hm1]
      have g2 : usageGet (assocSet u (nw.depotIdxOf sd, vt) (e1.1.filter (· != v), e1.2)) (nw.depotIdxOf ed) vt = e2 :=
        getK_of_get (unwrapO_ok he2)
      unfold usageModify; rw [g2]; rfl

theorem home_unique {nw : Network} {V : List (Veh × Nat)} {T : Tours} {b : Bool} {v : Veh} {k k' : Nat × Nat}
    (h : Home nw V T b v k) (h' : Home nw V T b v k') : k = k' := by
  obtain ⟨t, vt, dn, ht, hvt, hdn, hk⟩ := h
  obtain ⟨t', vt', dn', ht', hvt', hdn', hk'⟩ := h'
  rw [ht] at ht'; cases ht'
  rw [hvt] at hvt'; cases hvt'
  rw [hdn] at hdn'; cases hdn'
  rw [hk, hk']

/-- after the first loop: the listed vehicles are in no set, everybody else is untouched -/
theorem takeOutAll_spec {nw : Network} {s : Schedule} (hi : ListInv s) : ∀ (L : List Veh) (done : List Veh)
    (u u' : DepotUsage),
    (∀ b k w, w ∈ side b (getK u k) ↔ (Home nw s.vehicles s.tours b w k ∧ w ∉ done)) →
    (∀ b k, (side b (getK u k)).Nodup) →
    L.foldlM (C09A.takeOut nw s) u = .ok u' →
    (∀ b k w, w ∈ side b (getK u' k) ↔ (Home nw s.vehicles s.tours b w k ∧ w ∉ done ∧ w ∉ L)) ∧
    (∀ b k, (side b (getK u' k)).Nodup)
  | [], done, u, u', hm, hn, h => by
    simp only [List.foldlM_nil, pure, Except.pure, Except.ok.injEq] at h
    subst h
    exact ⟨fun b k w => by rw [hm]; simp, hn⟩
  | v :: rest, done, u, u', hm, hn, h => by
    rw [List.foldlM_cons] at h
    obtain ⟨u1, h1, h⟩ := bind_ok h
    obtain ⟨vt, t, sd, ed, hvt, ht, hsd, hed, hu1⟩ := takeOut_eq h1
    have hv : s.isVehicle v = true := typed_isVehicle hvt
    have htt : assocGet? s.tours v = some t := by rw [← (tourOf_vehicle hi hv).1]; exact ht
    have hhome : ∀ b k, Home nw s.vehicles s.tours b v k ↔
        k = (nw.depotIdxOf (if b then sd else ed), vt) := by
      intro b k
      constructor
      · intro hh
        have : Home nw s.vehicles s.tours b v (nw.depotIdxOf (if b then sd else ed), vt) := by
          refine ⟨t, vt, (if b then sd else ed), htt, hvt, ?_, rfl⟩
          cases b
          · exact hed
          · exact hsd
        exact home_unique hh this
      · intro hk
        refine ⟨t, vt, (if b then sd else ed), htt, hvt, ?_, hk⟩
        cases b
        · exact hed
        · exact hsd
    have hm1 : ∀ b k w, w ∈ side b (getK u1 k) ↔ (Home nw s.vehicles s.tours b w k ∧ w ∉ v :: done) := by
      intro b k w
      rw [hu1]
      cases b with
      | true =>
        have e2 := other_modify_filt (usageModify u (nw.depotIdxOf sd) vt (filt true v)) (nw.depotIdxOf ed) vt false v k
        simp only [Bool.not_false] at e2
        rw [e2, mem_modify_filt, hm]
        constructor
        · intro ⟨⟨hh, hd⟩, hne⟩
          refine ⟨hh, ?_⟩
          intro hmem
          rcases List.mem_cons.mp hmem with e | e
          · subst e
            exact hne ⟨by have := (hhome true k).mp hh; simpa using this, rfl⟩
          · exact hd e
        · intro ⟨hh, hd⟩
          refine ⟨⟨hh, fun e => hd (by simp [e])⟩, fun ⟨_, e⟩ => hd (by simp [e])⟩
      | false =>
        have e1 := other_modify_filt u (nw.depotIdxOf sd) vt true v k
        simp only [Bool.not_true] at e1
        rw [mem_modify_filt, e1, hm]
        constructor
        · intro ⟨⟨hh, hd⟩, hne⟩
          refine ⟨hh, ?_⟩
          intro hmem
          rcases List.mem_cons.mp hmem with e | e
          · subst e
            exact hne ⟨by have := (hhome false k).mp hh; simpa using this, rfl⟩
          · exact hd e
        · intro ⟨hh, hd⟩
          refine ⟨⟨hh, fun e => hd (by simp [e])⟩, fun ⟨_, e⟩ => hd (by simp [e])⟩
    have hn1 : ∀ b k, (side b (getK u1 k)).Nodup := by
      intro b k
      rw [hu1]
      cases b with
      | true =>
        have e2 := other_modify_filt (usageModify u (nw.depotIdxOf sd) vt (filt true v)) (nw.depotIdxOf ed) vt false v k
        simp only [Bool.not_false] at e2
        rw [e2]; exact nodup_modify_filt _ _ _ _ _ _ (hn true k)
      | false =>
        apply nodup_modify_filt
        have e1 := other_modify_filt u (nw.depotIdxOf sd) vt true v k
        simp only [Bool.not_true] at e1
        rw [e1]; exact hn false k
    obtain ⟨r1, r2⟩ := takeOutAll_spec hi rest (v :: done) u1 u' hm1 hn1 h
    refine ⟨fun b k w => ?_, r2⟩
    rw [r1]
    constructor
    · intro ⟨hh, hd, hr⟩
      exact ⟨hh, fun e => hd (by simp [e]), fun e => by
        rcases List.mem_cons.mp e with e | e
        · exact hd (by simp [e])
        · exact hr e⟩
    · intro ⟨hh, hd, hr⟩
      exact ⟨hh, fun e => by
        rcases List.mem_cons.mp e with e | e
        · exact hr (by simp [e])
        · exact hd e, fun e => hr (by simp [e])⟩

theorem improveStep_upd {nw : Network} {s : Schedule} {acc acc' : Acc} {v : Veh}
    (h : improveStep nw s acc v = .ok acc') :
    ∃ nt t vt sd ed, s.tourOf? v = some t ∧ s.typeOf? v = some vt ∧ Transition.startDepotU nw nt = .ok sd ∧
      Transition.endDepotU nw nt = .ok ed ∧ acc'.1 = assocSet acc.1 v nt ∧
      acc'.2.1 = usageModify (usageModify acc.2.1 (nw.depotIdxOf sd) vt (ins true v)) (nw.depotIdxOf ed) vt (ins false v) := by
  obtain ⟨tours, u, costs⟩ := acc
  unfold improveStep at h
  dsimp only at h
  obtain ⟨t, ht, h⟩ := bind_ok h
  obtain ⟨vt, hvt, h⟩ := bind_ok h
  obtain ⟨nt, _, h⟩ := bind_ok h
  obtain ⟨c, hc, h⟩ := bind_ok h
  obtain ⟨sd, hsd, h⟩ := bind_ok h
  obtain ⟨ed, hed, h⟩ := bind_ok h
  simp only [pure, Except.pure, Except.ok.injEq] at h
  subst h
  exact ⟨nt, t, vt, sd, ed, unwrapO_ok ht, unwrapO_ok hvt, hsd, hed, rfl, rfl⟩

/-- the second loop: each listed vehicle is put where its new tour starts and ends -/
theorem improveFold_spec {nw : Network} {s : Schedule} (hi : ListInv s) : ∀ (L : List Veh), L.Nodup →
    ∀ (acc acc' : Acc),
    (∀ b k w, w ∈ side b (getK acc.2.1 k) ↔ (Home nw s.vehicles acc.1 b w k ∧ w ∉ L)) →
    (∀ b k, (side b (getK acc.2.1 k)).Nodup) →
    L.foldlM (improveStep nw s) acc = .ok acc' →
    UsageOK nw s.vehicles acc'.1 acc'.2.1
  | [], _, acc, acc', hm, hn, h => by
    simp only [List.foldlM_nil, pure, Except.pure, Except.ok.injEq] at h
    subst h
    exact ⟨fun b k w => by rw [hm]; simp, hn⟩
  | v :: rest, hnd, acc, acc', hm, hn, h => by
    rw [List.foldlM_cons] at h
    obtain ⟨a1, h1, h⟩ := bind_ok h
    obtain ⟨nt, t, vt, sd, ed, ht, hvt, hsd, hed, hT, hU⟩ := improveStep_upd h1
    have hvr : v ∉ rest := (List.nodup_cons.mp hnd).1
    have hhome : ∀ b k, Home nw s.vehicles a1.1 b v k ↔ k = (nw.depotIdxOf (if b then sd else ed), vt) := by
      intro b k
      have hg : assocGet? a1.1 v = some nt := by rw [hT, assocGet?_assocSet]; simp
      constructor
      · intro hh
        have : Home nw s.vehicles a1.1 b v (nw.depotIdxOf (if b then sd else ed), vt) := by
          refine ⟨nt, vt, (if b then sd else ed), hg, hvt, ?_, rfl⟩
          cases b
          · exact hed
          · exact hsd
        exact home_unique hh this
      · intro hk
        refine ⟨nt, vt, (if b then sd else ed), hg, hvt, ?_, hk⟩
        cases b
        · exact hed
        · exact hsd
    have hother : ∀ w, w ≠ v → ∀ b k, Home nw s.vehicles a1.1 b w k ↔ Home nw s.vehicles acc.1 b w k := by
      intro w hw b k
      exact home_congr rfl (by rw [hT]; exact get_set_ne _ _ _ _ hw) b k
    have hm1 : ∀ b k w, w ∈ side b (getK a1.2.1 k) ↔ (Home nw s.vehicles a1.1 b w k ∧ w ∉ rest) := by
      intro b k w
      rw [hU]
      have key : w ∈ side b (getK (usageModify (usageModify acc.2.1 (nw.depotIdxOf sd) vt (ins true v))
          (nw.depotIdxOf ed) vt (ins false v)) k) ↔
          (w ∈ side b (getK acc.2.1 k) ∨ (k = (nw.depotIdxOf (if b then sd else ed), vt) ∧ w = v)) := by
        cases b with
        | true =>
          have e2 := other_modify_ins (usageModify acc.2.1 (nw.depotIdxOf sd) vt (ins true v)) (nw.depotIdxOf ed) vt false v k
          simp only [Bool.not_false] at e2
          rw [e2, mem_modify_ins]; simp
        | false =>
          have e1 := other_modify_ins acc.2.1 (nw.depotIdxOf sd) vt true v k
          simp only [Bool.not_true] at e1
          rw [mem_modify_ins, e1]; simp
      rw [key, hm]
      by_cases e : w = v
      · subst e
        rw [hhome]
        constructor
        · intro hh
          rcases hh with ⟨_, hh⟩ | ⟨hh, _⟩
          · exact absurd (by simp) hh
          · exact ⟨hh, hvr⟩
        · intro ⟨hh, _⟩; exact Or.inr ⟨hh, rfl⟩
      · rw [hother w e]
        constructor
        · intro hh
          rcases hh with ⟨hh, hr⟩ | ⟨_, hh⟩
          · exact ⟨hh, fun x => hr (by simp [x])⟩
          · exact absurd hh e
        · intro ⟨hh, hr⟩
          exact Or.inl ⟨hh, fun x => by
            rcases List.mem_cons.mp x with x | x
            · exact e x
            · exact hr x⟩
    have hn1 : ∀ b k, (side b (getK a1.2.1 k)).Nodup := by
      intro b k
      rw [hU]
      cases b with
      | true =>
        have e2 := other_modify_ins (usageModify acc.2.1 (nw.depotIdxOf sd) vt (ins true v)) (nw.depotIdxOf ed) vt false v k
        simp only [Bool.not_false] at e2
        rw [e2]; exact nodup_modify_ins _ _ _ _ _ _ (hn true k)
      | false =>
        apply nodup_modify_ins
        have e1 := other_modify_ins acc.2.1 (nw.depotIdxOf sd) vt true v k
        simp only [Bool.not_true] at e1
        rw [e1]; exact hn false k
    exact improveFold_spec hi rest (List.nodup_cons.mp hnd).2 a1 acc' hm1 hn1 h

theorem improve_usage {nw : Network} {s s' : Schedule} {vs : Option (List Veh)} (hi : ListInv s) (hu : UsageInv nw s)
    (h : improveDepots nw s vs = .ok s') : UsageInv nw s' := by
  have hnd : (vs.getD (s.vehiclesAll nw)).Nodup := by
    cases vs with
    | none => exact vehiclesAll_nodup hi
    | some L => exact C09A.improve_nodup h
  unfold improveDepots at h
  dsimp only at h
  obtain ⟨usage0, h0, h⟩ := bind_ok h
  have hstep : ∀ (r : Acc),
      (vs.getD (s.vehiclesAll nw)).foldlM (improveStep nw s) (s.tours, usage0, s.costs) = .ok r →
      UsageOK nw s.vehicles r.1 r.2.1 := by
    intro r hfold
    obtain ⟨r1, r2⟩ := takeOutAll_spec hi (vs.getD (s.vehiclesAll nw)) [] s.depotUsage usage0
      (fun b k w => by rw [hu.mem]; simp) hu.nodup h0
    exact improveFold_spec hi _ hnd (s.tours, usage0, s.costs) r
      (fun b k w => by rw [r1]; simp) r2 hfold
  obtain ⟨⟨tours, usage, costs⟩, hfold, h⟩ := bind_ok h
  have hc := hstep (tours, usage, costs) hfold
  inv_do h
  all_goals (try contradiction)
  all_goals (try (cases h))
  all_goals (try (simp only [pure, Except.pure, Except.ok.injEq] at *))
  all_goals (try subst_vars)
  all_goals exact hc

theorem recompute_usage {nw : Network} {s s' : Schedule} {vts : Option (List Nat)} (hu : UsageInv nw s)
    (h : recomputeTransitionsFor nw s vts = .ok s') : UsageInv nw s' := by
  unfold recomputeTransitionsFor at h
  obtain ⟨⟨trans, viol⟩, _, h⟩ := bind_ok h
  simp only [pure, Except.pure, Except.ok.injEq] at h
  rw [← h]; exact hu

/-- **C10 (depot usage), one step**: every public modification keeps the depot bookkeeping exact -/
theorem C10_usage_step (nw : Network) (s : Schedule) (op : SOp) (r : OpResult)
    (hi : ListInv s) (hd : DummyInv s) (hu : UsageInv nw s) (hargs : ArgsOKF op) (h : applyOp nw s op = .ok r) :
    UsageInv nw r.sched := by
  unfold applyOp at h
  cases op with
  | init =>
    simp only [pure, Except.pure, Except.ok.injEq] at h
    rw [← h]; exact empty_usage nw
  | spawn vt path =>
    obtain ⟨⟨s', v⟩, hs, h⟩ := bind_ok h
    simp only [pure, Except.pure, Except.ok.injEq] at h
    subst h; exact spawn_usage hi hu hs
  | dummySpawn d vt =>
    obtain ⟨⟨s', v⟩, hs, h⟩ := bind_ok h
    simp only [pure, Except.pure, Except.ok.injEq] at h
    subst h; exact dummySpawn_usage hi hu hs
  | delete v =>
    obtain ⟨s', hs, h⟩ := bind_ok h
    simp only [pure, Except.pure, Except.ok.injEq] at h
    subst h; exact delete_usage hi hu hs
  | addPath v path =>
    dsimp only at h
    split at h
    · obtain ⟨⟨s', rm⟩, hs, h⟩ := bind_ok h
      simp only [pure, Except.pure, Except.ok.injEq] at h
      subst h; exact addPath_usage hi hu hs
    · cases h
  | rmSeg v a b =>
    obtain ⟨s', hs, h⟩ := bind_ok h
    simp only [pure, Except.pure, Except.ok.injEq] at h
    subst h; exact rmSeg_usage hi hd hu hs
  | fit p q a b =>
    obtain ⟨s', hs, h⟩ := bind_ok h
    simp only [pure, Except.pure, Except.ok.injEq] at h
    subst h; exact fit_usage hi hu hargs hs
  | override p q a b =>
    obtain ⟨⟨s', d⟩, hs, h⟩ := bind_ok h
    simp only [pure, Except.pure, Except.ok.injEq] at h
    subst h; exact override_usage hi hu hargs hs
  | improve vs =>
    obtain ⟨s', hs, h⟩ := bind_ok h
    simp only [pure, Except.pure, Except.ok.injEq] at h
    subst h; exact improve_usage hi hu hs
  | endGreedy =>
    obtain ⟨s', hs, h⟩ := bind_ok h
    simp only [pure, Except.pure, Except.ok.injEq] at h
    subst h; exact endGreedy_usage hi hu hs
  | recompute vts =>
    obtain ⟨s', hs, h⟩ := bind_ok h
    simp only [pure, Except.pure, Except.ok.injEq] at h
    subst h; exact recompute_usage hu hs
  | endConsistent =>
    obtain ⟨s', hs, h⟩ := bind_ok h
    simp only [pure, Except.pure, Except.ok.injEq] at h
    subst h; exact endConsistent_usage hi hu hs
  | setTrans vt v ci =>
    obtain ⟨tr, _, h⟩ := bind_ok h
    obtain ⟨moved, _, h⟩ := bind_ok h
    simp only [pure, Except.pure, Except.ok.injEq] at h
    subst h; exact hu

/-! ### every history, every candidate of the search, every stage of the pipeline -/

/-- all the every-history invariants of Props/C09CostsAll plus the depot bookkeeping -/
structure InvU (nw : Network) (s : Schedule) : Prop where
  all : C09A.InvAll nw s
  usage : UsageInv nw s

theorem stepInv_usage {nw : Network} (hn : NetHyp nw) : C11A.StepInv nw (InvU nw) where
  step := fun s op r hinv hargs h =>
    ⟨(C09A.stepInv_all hn).step s op r hinv.all hargs h,
     C10_usage_step nw s op r hinv.all.fu.invF.inv.tinv.listing hinv.all.fu.invF.inv.tinv.dummies hinv.usage hargs h⟩
  fresh := fun _ _ _ hinv hpt => C11A.tour_ne_fresh hinv.all.fu.invF hpt
  setT := fun s trans hnd h => ⟨(C09A.stepInv_all hn).setT s trans hnd h.all, h.usage⟩
  empty := ⟨(C09A.stepInv_all hn).empty, empty_usage nw⟩

theorem C10_usage_reachable (nw : Network) (hn : NetHyp nw) : ∀ (ops : List SOp) (s s' : Schedule),
    InvU nw s → (∀ op ∈ ops, ArgsOKF op) → runOps nw s ops = some s' → InvU nw s'
  | [], s, s', hinv, _, h => by simp only [runOps, Option.some.injEq] at h; rw [← h]; exact hinv
  | op :: rest, s, s', hinv, hargs, h => by
    unfold runOps at h
    split at h
    · rename_i r hr
      exact C10_usage_reachable nw hn rest r.sched s'
        ((stepInv_usage hn).step s op r hinv (hargs op (by simp)) hr) (fun o ho => hargs o (by simp [ho])) h
    · cases h

/-- **C10 / C09 (depot usage), every history**: in every schedule the model reaches from the empty
    schedule by public modifications (provider ≠ receiver in reassignments), for every depot, type
    and side: the start (end) set of the depot holds exactly the real vehicles of the type whose tour
    starts (ends) in the depot, and each of them once — so the number of spawned vehicles the depot
    check counts is the number of tours that start there -/
theorem C10_usage_from_empty (nw : Network) (hn : NetHyp nw) (ops : List SOp) (s' : Schedule)
    (hargs : ∀ op ∈ ops, ArgsOKF op) (h : runOps nw (Schedule.empty nw) ops = some s') :
    UsageInv nw s' :=
  (C10_usage_reachable nw hn ops _ s' (stepInv_usage hn).empty hargs h).usage

/-- … and the same (with all the caches of `C04_pipeline_caches`) for the start schedule, the
    local-search result and the returned schedule of the modelled pipeline -/
theorem C10_usage_pipeline (nw : Network) (hn : NetHyp nw) (o : Solve.Oracle)
    (hopt : ∀ s, ((o.optimise s).map (·.1)).Nodup) (tr : Solve.Trace) (h : Solve.solve nw o = .ok tr) :
    InvU nw tr.start ∧ InvU nw tr.afterSearch ∧ InvU nw tr.final :=
  C11A.solve_inv (stepInv_usage hn) o hopt tr h

/-- … and for every candidate the search evaluates -/
theorem C10_usage_candidates (nw : Network) (hn : NetHyp nw) {limit threshold : Option Nat} {s : Schedule}
    {last : SwapInfo} {cands : List Swaps.Candidate} (hinv : InvU nw s)
    (h : Swaps.neighborsOf nw limit threshold s last = .ok cands) : ∀ c ∈ cands, InvU nw c.sched :=
  C11A.neighbors_invF (stepInv_usage hn).toStepInv0 hinv h

/-- what the invariant says about the counters the depot check reads: a vehicle counted at a depot
    has a tour that starts there, and conversely -/
theorem usage_counts {nw : Network} {s : Schedule} (hu : UsageInv nw s) (d vt : Nat) (v : Veh) :
    v ∈ (getK s.depotUsage (d, vt)).1 ↔
      ∃ t dn, assocGet? s.tours v = some t ∧ assocGet? s.vehicles v = some vt ∧
        Transition.startDepotU nw t = .ok dn ∧ d = nw.depotIdxOf dn := by
  have := hu.mem true (d, vt) v
  simp only [side] at this
  rw [show (getK s.depotUsage (d, vt)).1 = (if true = true then (getK s.depotUsage (d, vt)).1 else (getK s.depotUsage (d, vt)).2) from rfl]
  constructor
  · intro hm
    obtain ⟨t, vt', dn, ht, hvt, hdn, hk⟩ := this.mp (by simpa using hm)
    simp only [Prod.mk.injEq] at hk
    exact ⟨t, dn, ht, by rw [hvt, hk.2], hdn, hk.1⟩
  · intro ⟨t, dn, ht, hvt, hdn, hk⟩
    have := this.mpr ⟨t, vt, dn, ht, hvt, hdn, by rw [hk]⟩
    simpa using this

end RSSched.C10U
