/-
Props/C15Ops: every rotation-cycle operation of the model keeps the bookkeeping exact
(C15 at full strength, per operation and hence for every finite operation sequence).

`Consistent nw T tr` is the declarative invariant: every cycle is duplicate-free, `lookup` is
exactly the membership relation (so the cycles are pairwise disjoint), `empty` lists exactly the
empty cycles once each, every cycle's counter equals the recomputation from the tours `T`
(Σ maintenance counters + Σ cyclic depot links, self loop for one vehicle, 0 for none) and the
totals are the sums. `T` is the tour lookup the operation sees (`updated` first, then `old`).
-/
import RSSched.Props.C15
import RSSched.Lemmas.Cyclic
import RSSched.Lemmas.Assoc
namespace RSSched.C15
open RSSched Spec Cyclic

abbrev TourMap := Veh → Option Tour

/-- the Rust lookup "updated tours first, then old tours" -/
def overlay (updated old : Tours) : TourMap := fun w =>
  match assocGet? updated w with
  | some t => some t
  | none => assocGet? old w

def Toured (nw : Network) (T : TourMap) (v : Veh) : Prop :=
  ∃ t s e, T v = some t ∧ t.startDepot nw = .ok s ∧ t.endDepot nw = .ok e

def mcOf (nw : Network) (T : TourMap) (v : Veh) : Int :=
  match T v with
  | some t => t.maintenanceCounter nw
  | none => 0

def linkOf (nw : Network) (T : TourMap) (a b : Veh) : Int :=
  match T a, T b with
  | some ta, some tb =>
    match ta.endDepot nw, tb.startDepot nw with
    | .ok e, .ok s => Transition.depotDist nw e s
    | _, _ => 0
  | _, _ => 0

/-- the from-scratch counter of a cycle -/
def counterSpec (nw : Network) (T : TourMap) (vs : List Veh) : Int :=
  sumInt (vs.map (mcOf nw T)) + cyc (linkOf nw T) vs

def members (tr : Transition) : List Veh := tr.cycles.flatMap (·.vehicles)

structure Consistent (nw : Network) (T : TourMap) (tr : Transition) : Prop where
  cycNodup : ∀ (i : Nat) (c : Cycle), tr.cycles[i]? = some c → c.vehicles.Nodup
  toured : ∀ (i : Nat) (c : Cycle), tr.cycles[i]? = some c → ∀ v ∈ c.vehicles, Toured nw T v
  keys : (tr.lookup.map (·.1)).Nodup
  lookup : ∀ (v : Veh) (i : Nat), assocGet? tr.lookup v = some i ↔ ∃ c : Cycle, tr.cycles[(i : Nat)]? = some c ∧ v ∈ c.vehicles
  emptyNodup : tr.empty.Nodup
  empty : ∀ i : Nat, i ∈ tr.empty ↔ ∃ c : Cycle, tr.cycles[(i : Nat)]? = some c ∧ c.vehicles = []
  counter : ∀ (i : Nat) (c : Cycle), tr.cycles[i]? = some c → c.counter = counterSpec nw T c.vehicles
  totV : tr.totalViolation = sumViolations tr.cycles
  totC : tr.totalCounter = sumCounters tr.cycles

/-! ### inversion of the fault monad -/
theorem bind_ok {α β} {x : R α} {f : α → R β} {b : β} (h : (x >>= f) = .ok b) :
    ∃ a, x = .ok a ∧ f a = .ok b := by
  cases x with
  | error e => simp [bind, Except.bind] at h
  | ok a => exact ⟨a, rfl, h⟩

theorem unwrapO_ok {α} {o : Option α} {site : String} {a : α} (h : unwrapO o site = .ok a) : o = some a := by
  cases o with
  | none => simp [unwrapO] at h
  | some x => simp [unwrapO] at h; simp [h]

theorem unwrapR_ok {α} {r : R α} {site : String} {a : α} (h : unwrapR r site = .ok a) : r = .ok a := by
  cases r with
  | error e => simp [unwrapR] at h
  | ok x => simp [unwrapR] at h; simp [h]

theorem tourOf_ok {updated old : Tours} {v : Veh} {t : Tour}
    (h : Transition.tourOf updated old v = .ok t) : overlay updated old v = some t := by
  unfold Transition.tourOf at h
  unfold overlay
  cases hu : assocGet? updated v with
  | some x => simp [hu] at h; simp [h]
  | none => simp only [hu] at h; exact unwrapO_ok h

/-! ### position arithmetic of `end_depot_of_predecessor_and_start_depot_of_successor` -/
theorem pred_spec (pre suf : List Veh) (v : Veh) (h : suf ++ pre ≠ []) :
    (if (pre.length == 0) = true then (pre ++ v :: suf).getLast? else (pre ++ v :: suf)[pre.length - 1]?)
      = (suf ++ pre).getLast? := by
  cases pre with
  | nil =>
    cases suf with
    | nil => simp at h
    | cons b bs => simp [List.getLast?_cons_cons]
  | cons a as =>
    have hne : (a :: as) ≠ [] := by simp
    rw [getLast?_append_ne hne]
    have : ((a :: as).length == 0) = false := by simp
    simp only [this, Bool.false_eq_true, ↓reduceIte]
    rw [List.getElem?_append_left (by simp)]
    rw [List.getLast?_eq_getElem?]

theorem succ_spec (pre suf : List Veh) (v : Veh) (h : suf ++ pre ≠ []) :
    (if (pre.length == (pre ++ v :: suf).length - 1) = true then (pre ++ v :: suf).head?
      else (pre ++ v :: suf)[pre.length + 1]?) = (suf ++ pre).head? := by
  cases suf with
  | nil =>
    cases pre with
    | nil => simp at h
    | cons a as => simp
  | cons b bs =>
    have : (pre.length == (pre ++ v :: b :: bs).length - 1) = false := by
      simp only [List.length_append, List.length_cons, beq_eq_false_iff_ne, ne_eq]; omega
    simp only [this, Bool.false_eq_true, ↓reduceIte]
    rw [List.getElem?_append_right (by omega)]
    simp

theorem predEndSuccStart_ok {nw : Network} {tr : Transition} {v : Veh} {updated old : Tours} {e s : Nat}
    (h : Transition.predEndSuccStart nw tr v updated old = .ok (e, s)) :
    ∃ ci oc pos pred succ pt st, assocGet? tr.lookup v = some ci ∧ tr.cycles[ci]? = some oc ∧
      oc.vehicles.findIdx? (· == v) = some pos ∧
      (if (pos == 0) = true then oc.vehicles.getLast? else oc.vehicles[pos - 1]?) = some pred ∧
      (if (pos == oc.vehicles.length - 1) = true then oc.vehicles.head? else oc.vehicles[pos + 1]?) = some succ ∧
      overlay updated old pred = some pt ∧ overlay updated old succ = some st ∧
      pt.endDepot nw = .ok e ∧ st.startDepot nw = .ok s := by
  unfold Transition.predEndSuccStart at h
  obtain ⟨ci, hci, h⟩ := bind_ok h
  obtain ⟨oc, hoc, h⟩ := bind_ok h
  obtain ⟨pos, hpos, h⟩ := bind_ok h
  refine ⟨ci, oc, pos, ?_⟩
  have hci := unwrapO_ok hci
  have hoc := unwrapO_ok hoc
  have hpos := unwrapO_ok hpos
  dsimp only at h
  split at h <;> rename_i hp0 <;>
  · obtain ⟨pred, hpred, h⟩ := bind_ok h
    split at h <;> rename_i hp1 <;>
    · obtain ⟨succ, hsucc, h⟩ := bind_ok h
      obtain ⟨pt, hpt, h⟩ := bind_ok h
      obtain ⟨st, hst, h⟩ := bind_ok h
      obtain ⟨e', he, h⟩ := bind_ok h
      obtain ⟨s', hs, h⟩ := bind_ok h
      simp only [pure, Except.pure, Except.ok.injEq, Prod.mk.injEq] at h
      obtain ⟨rfl, rfl⟩ := h
      refine ⟨pred, succ, pt, st, hci, hoc, hpos, ?_, ?_, tourOf_ok hpt, tourOf_ok hst,
        unwrapR_ok he, unwrapR_ok hs⟩
      · simp only [hp0, ↓reduceIte]; exact unwrapO_ok hpred
      · simp only [hp1, ↓reduceIte]; exact unwrapO_ok hsucc

theorem linkOf_eq {nw : Network} {T : TourMap} {a b : Veh} {ta tb : Tour} {e s : Nat}
    (ha : T a = some ta) (hb : T b = some tb) (he : ta.endDepot nw = .ok e) (hs : tb.startDepot nw = .ok s) :
    linkOf nw T a b = Transition.depotDist nw e s := by
  simp [linkOf, ha, hb, he, hs]

theorem mcOf_eq {nw : Network} {T : TourMap} {a : Veh} {ta : Tour} (ha : T a = some ta) :
    mcOf nw T a = ta.maintenanceCounter nw := by simp [mcOf, ha]

theorem counterWithLinks_ok {nw : Network} {t : Tour} {e s : Nat} {r : Int}
    (h : Transition.counterWithLinks nw t e s = .ok r) :
    ∃ sv ev, t.startDepot nw = .ok sv ∧ t.endDepot nw = .ok ev ∧
      r = t.maintenanceCounter nw + Transition.depotDist nw e sv + Transition.depotDist nw ev s := by
  unfold Transition.counterWithLinks at h
  obtain ⟨sv, hsv, h⟩ := bind_ok h
  obtain ⟨ev, hev, h⟩ := bind_ok h
  simp only [pure, Except.pure, Except.ok.injEq] at h
  exact ⟨sv, ev, unwrapR_ok hsv, unwrapR_ok hev, h.symm⟩

theorem selfLoopCounter_ok {nw : Network} {t : Tour} {r : Int}
    (h : Transition.selfLoopCounter nw t = .ok r) :
    ∃ sv ev, t.startDepot nw = .ok sv ∧ t.endDepot nw = .ok ev ∧
      r = t.maintenanceCounter nw + Transition.depotDist nw ev sv := by
  unfold Transition.selfLoopCounter at h
  obtain ⟨sv, hsv, h⟩ := bind_ok h
  obtain ⟨ev, hev, h⟩ := bind_ok h
  simp only [pure, Except.pure, Except.ok.injEq] at h
  exact ⟨sv, ev, unwrapR_ok hsv, unwrapR_ok hev, h.symm⟩

theorem sumInt_map_split (f : Veh → Int) (pre suf : List Veh) (v : Veh) :
    sumInt ((pre ++ v :: suf).map f) = sumInt ((pre ++ suf).map f) + f v := by
  unfold sumInt
  simp only [List.map_append, List.map_cons, sumInt_append, List.foldr_cons]
  omega

/-- facts about the cycle a member is looked up in -/
theorem member_facts {nw : Network} {T : TourMap} {tr : Transition} (hc : Consistent nw T tr)
    {v : Veh} {ci : Nat} {oc : Cycle} (hci : assocGet? tr.lookup v = some ci) (hoc : tr.cycles[ci]? = some oc) :
    v ∈ oc.vehicles ∧ ci < tr.cycles.length ∧ ci ∉ tr.empty := by
  obtain ⟨c, h1, h2⟩ := (hc.lookup v ci).mp hci
  rw [hoc] at h1; cases h1
  refine ⟨h2, (List.getElem?_eq_some_iff.mp hoc).1, ?_⟩
  intro he
  obtain ⟨c, h1, h3⟩ := (hc.empty ci).mp he
  rw [hoc] at h1; cases h1
  rw [h3] at h2; cases h2

theorem counterSpec_congr (nw : Network) (T T' : TourMap) (vs : List Veh)
    (h : ∀ w ∈ vs, T' w = T w) : counterSpec nw T' vs = counterSpec nw T vs := by
  unfold counterSpec
  have h1 : vs.map (mcOf nw T') = vs.map (mcOf nw T) := by
    apply List.map_congr_left; intro w hw; simp [mcOf, h w hw]
  have h2 : ∀ a b, a ∈ vs → b ∈ vs → linkOf nw T' a b = linkOf nw T a b := by
    intro a b ha hb; simp [linkOf, h a ha, h b hb]
  rw [h1]
  congr 1
  unfold cyc
  rw [pairSumI_congr _ _ vs h2]
  congr 1
  cases hl : vs.getLast? with
  | none => simp [connI]
  | some x =>
    cases hh : vs.head? with
    | none => simp [connI]
    | some y =>
      simp only [connI]
      exact h2 x y (List.mem_of_getLast? hl) (List.mem_of_head? hh)

theorem toured_congr {nw : Network} {T T' : TourMap} {w : Veh} (h : T' w = T w) (ht : Toured nw T w) :
    Toured nw T' w := by
  obtain ⟨t, s, e, h1, h2, h3⟩ := ht
  exact ⟨t, s, e, by rw [h, h1], h2, h3⟩

/-- the common shape of all single-cycle operations: one cycle is replaced, the totals get the
    delta, lookup and the empty list are adjusted for that cycle only; tours may change for
    vehicles outside all other cycles -/
theorem consistent_set {nw : Network} {T T' : TourMap} {tr : Transition} (hc : Consistent nw T tr)
    (ci : Nat) (oc c' : Cycle) (hoc : tr.cycles[ci]? = some oc) (lookup' : List (Veh × Nat)) (empty' : List Nat)
    (hT : ∀ (i : Nat) (c : Cycle), i ≠ ci → tr.cycles[i]? = some c → ∀ w ∈ c.vehicles, T' w = T w)
    (hnd : c'.vehicles.Nodup) (htoured : ∀ w ∈ c'.vehicles, Toured nw T' w)
    (hkeys : (lookup'.map (·.1)).Nodup)
    (hl1 : ∀ w, assocGet? lookup' w = some ci ↔ w ∈ c'.vehicles)
    (hl2 : ∀ w (i : Nat), i ≠ ci → (assocGet? lookup' w = some i ↔ assocGet? tr.lookup w = some i))
    (hen : empty'.Nodup) (he1 : ci ∈ empty' ↔ c'.vehicles = [])
    (he2 : ∀ i : Nat, i ≠ ci → (i ∈ empty' ↔ i ∈ tr.empty))
    (hcount : c'.counter = counterSpec nw T' c'.vehicles) :
    Consistent nw T'
      { cycles := tr.cycles.set ci c'
        totalViolation := (tr.totalViolation + posMax0 c'.counter) - posMax0 oc.counter
        totalCounter := (tr.totalCounter + c'.counter) - oc.counter
        lookup := lookup', empty := empty' } := by
  have hlt : ci < tr.cycles.length := (List.getElem?_eq_some_iff.mp hoc).1
  have hget : ∀ j : Nat, (tr.cycles.set ci c')[j]? = if j = ci then some c' else tr.cycles[j]? :=
    fun j => getElem?_set' _ _ _ _ hlt
  have hold : tr.cycles[ci] = oc := (List.getElem?_eq_some_iff.mp hoc).2
  obtain ⟨ht1, ht2⟩ := C15_totals_set tr.cycles ci c' hlt
  constructor
  · intro i c h; simp only [hget] at h
    by_cases e : i = ci
    · simp only [e, ↓reduceIte, Option.some.injEq] at h; subst h; exact hnd
    · simp only [e, ↓reduceIte] at h; exact hc.cycNodup i c h
  · intro i c h w hw; simp only [hget] at h
    by_cases e : i = ci
    · simp only [e, ↓reduceIte, Option.some.injEq] at h; subst h; exact htoured w hw
    · simp only [e, ↓reduceIte] at h
      exact toured_congr (hT i c e h w hw) (hc.toured i c h w hw)
  · exact hkeys
  · intro w i; simp only [hget]
    by_cases e : i = ci
    · subst e; simp only [↓reduceIte, Option.some.injEq, exists_eq_left']; exact hl1 w
    · simp only [e, ↓reduceIte]; rw [hl2 w i e]; exact hc.lookup w i
  · exact hen
  · intro i; simp only [hget]
    by_cases e : i = ci
    · subst e; simp only [↓reduceIte, Option.some.injEq, exists_eq_left']; exact he1
    · simp only [e, ↓reduceIte]; rw [he2 i e]; exact hc.empty i
  · intro i c h; simp only [hget] at h
    by_cases e : i = ci
    · simp only [e, ↓reduceIte, Option.some.injEq] at h; subst h; exact hcount
    · simp only [e, ↓reduceIte] at h
      rw [hc.counter i c h]
      exact (counterSpec_congr nw T T' c.vehicles (hT i c e h)).symm
  · simp only; rw [ht2, hc.totV, hold]
  · simp only; rw [ht1, hc.totC, hold]

theorem mem_members_iff {nw : Network} {T : TourMap} {tr : Transition} (hc : Consistent nw T tr) (w : Veh) :
    w ∈ members tr ↔ ∃ i, assocGet? tr.lookup w = some i := by
  unfold members
  rw [List.mem_flatMap]
  constructor
  · rintro ⟨c, hcm, hw⟩
    obtain ⟨i, hi, hget⟩ := List.getElem_of_mem hcm
    exact ⟨i, (hc.lookup w i).mpr ⟨c, by simp [List.getElem?_eq_getElem hi, hget], hw⟩⟩
  · rintro ⟨i, hi⟩
    obtain ⟨c, h1, h2⟩ := (hc.lookup w i).mp hi
    exact ⟨c, List.mem_of_getElem? h1, h2⟩

/-- `Transition::remove_vehicle` keeps the bookkeeping exact; the vehicle leaves, nobody else moves -/
theorem remove_consistent (nw : Network) (tr tr' : Transition) (v : Veh) (updated old : Tours)
    (hc : Consistent nw (overlay updated old) tr) (hfresh : assocGet? updated v = none)
    (h : Transition.removeVehicle nw tr v updated old = .ok tr') :
    Consistent nw (overlay updated old) tr' ∧
    (∀ w, w ∈ members tr' ↔ w ∈ members tr ∧ w ≠ v) ∧ tr'.cycles.length = tr.cycles.length := by
  unfold Transition.removeVehicle at h
  obtain ⟨ci, hci, h⟩ := bind_ok h
  obtain ⟨oc, hoc, h⟩ := bind_ok h
  have hci := unwrapO_ok hci
  have hoc := unwrapO_ok hoc
  obtain ⟨hv, hlt, hne⟩ := member_facts hc hci hoc
  obtain ⟨pre, suf, hsplit, hvpre, hvsuf, hfilt, hidx⟩ := split_at_mem oc.vehicles v (hc.cycNodup ci oc hoc) hv
  dsimp only at h
  have hkeys' := assocErase_keys_nodup tr.lookup v hc.keys
  have hget' := assocGet?_assocErase tr.lookup v
  have hmem : ∀ trn : Transition, Consistent nw (overlay updated old) trn → trn.lookup = assocErase tr.lookup v →
      ∀ w, w ∈ members trn ↔ w ∈ members tr ∧ w ≠ v := by
    intro trn hcn hl w
    rw [mem_members_iff hcn, mem_members_iff hc, hl]
    simp only [hget']
    by_cases e : w = v
    · simp [e]
    · simp [e]
  have hl1 : ∀ w, assocGet? (assocErase tr.lookup v) w = some ci ↔ w ∈ pre ++ suf := by
    intro w; rw [hget']
    by_cases e : w = v
    · subst e; simp [hvpre, hvsuf]
    · simp only [e, ↓reduceIte]
      rw [hc.lookup w ci, hoc]
      simp only [Option.some.injEq, exists_eq_left', hsplit, List.mem_append, List.mem_cons, e, false_or]
  have hl2 : ∀ w (i : Nat), i ≠ ci → (assocGet? (assocErase tr.lookup v) w = some i ↔ assocGet? tr.lookup w = some i) := by
    intro w i hi; rw [hget']
    by_cases e : w = v
    · subst e; simp only [↓reduceIte, reduceCtorEq, false_iff, hci, Option.some.injEq]; exact fun h => hi h.symm
    · simp [e]
  have hndps : (pre ++ suf).Nodup := by
    have := hc.cycNodup ci oc hoc
    rw [hsplit] at this
    exact this.sublist (List.Sublist.append_left (List.sublist_cons_self v suf) pre)
  have htour : ∀ w ∈ pre ++ suf, Toured nw (overlay updated old) w := by
    intro w hw; apply hc.toured ci oc hoc w
    rw [hsplit]; simp only [List.mem_append, List.mem_cons] at hw ⊢
    cases hw with
    | inl h => exact Or.inl h
    | inr h => exact Or.inr (Or.inr h)
  split at h
  · rename_i hemp
    simp only [pure, Except.pure, bind, Except.bind, Except.ok.injEq] at h
    subst h
    rw [hfilt] at hemp ⊢
    have hps : pre ++ suf = [] := by simpa using hemp
    have hcons := consistent_set (T' := overlay updated old) hc ci oc ⟨pre ++ suf, 0⟩ hoc (assocErase tr.lookup v) (tr.empty ++ [ci])
      (fun _ _ _ _ _ _ => rfl) hndps htour hkeys' hl1 hl2
      (by rw [List.nodup_append]; exact ⟨hc.emptyNodup, by simp, by intro a ha b hb; simp at hb; subst hb; intro e; subst e; exact hne ha⟩)
      (by simp [hps]) (by intro i hi; simp [hi])
      (by simp [hps, counterSpec, sumInt])
    exact ⟨hcons, hmem _ hcons rfl, by simp⟩
  · rename_i hemp
    obtain ⟨⟨e, s⟩, hpe, h⟩ := bind_ok h
    obtain ⟨ot, hot, h⟩ := bind_ok h
    obtain ⟨rem, hrem, h⟩ := bind_ok h
    simp only [pure, Except.pure, bind, Except.bind, Except.ok.injEq] at h
    subst h
    rw [hfilt] at hemp ⊢
    have hps : suf ++ pre ≠ [] := by
      intro h0; apply hemp
      simp only [List.append_eq_nil_iff] at h0; simp [h0.1, h0.2]
    obtain ⟨ci2, oc2, pos, pred, succ, pt, st, h1, h2, h3, h4, h5, h6, h7, h8, h9⟩ := predEndSuccStart_ok hpe
    rw [hci] at h1; cases h1
    rw [hoc] at h2; cases h2
    rw [hidx] at h3; cases h3
    rw [hsplit, pred_spec pre suf v hps] at h4
    rw [hsplit, succ_spec pre suf v hps] at h5
    have hot := unwrapO_ok hot
    have hTv : overlay updated old v = some ot := by simp [overlay, hfresh, hot]
    obtain ⟨sv, ev, hsv, hev, hr⟩ := counterWithLinks_ok hrem
    dsimp only at hr
    have hcount : oc.counter - rem + Transition.depotDist nw e s = counterSpec nw (overlay updated old) (pre ++ suf) := by
      rw [hc.counter ci oc hoc, hsplit]
      unfold counterSpec
      rw [sumInt_map_split, cyc_remove (linkOf nw (overlay updated old)) pre suf v hps, h4, h5]
      simp only [connI]
      rw [linkOf_eq h6 hTv h8 hsv, linkOf_eq hTv h7 hev h9, linkOf_eq h6 h7 h8 h9, mcOf_eq hTv, hr]
      omega
    have hcons := consistent_set (T' := overlay updated old) hc ci oc ⟨pre ++ suf, oc.counter - rem + Transition.depotDist nw e s⟩ hoc (assocErase tr.lookup v) tr.empty
      (fun _ _ _ _ _ _ => rfl) hndps htour hkeys' hl1 hl2 hc.emptyNodup
      (by simp only [hne, false_iff]; intro h0; apply hps; simp only [List.append_eq_nil_iff] at h0 ⊢; exact ⟨h0.2, h0.1⟩)
      (by intro i hi; rfl) hcount
    exact ⟨hcons, hmem _ hcons rfl, by simp⟩

theorem lookupInsert_get (l : List (Veh × Nat)) (v : Veh) (c : Nat) (hnd : (l.map (·.1)).Nodup) (w : Veh) :
    assocGet? (Transition.lookupInsert l v c) w = if w = v then some c else assocGet? l w := by
  unfold Transition.lookupInsert Transition.sortLookup
  rw [assocGet?_perm (List.mergeSort_perm _ _) ?_ w, assocGet?_assocSet]
  exact (((List.mergeSort_perm _ _).map _).nodup_iff).mpr (assocSet_keys_nodup l v c hnd)

theorem lookupInsert_keys (l : List (Veh × Nat)) (v : Veh) (c : Nat) (hnd : (l.map (·.1)).Nodup) :
    ((Transition.lookupInsert l v c).map (·.1)).Nodup := by
  unfold Transition.lookupInsert Transition.sortLookup
  exact (((List.mergeSort_perm _ _).map _).nodup_iff).mpr (assocSet_keys_nodup l v c hnd)

theorem sumInt_map_snoc (f : Veh → Int) (l : List Veh) (v : Veh) :
    sumInt ((l ++ [v]).map f) = sumInt (l.map f) + f v := by
  unfold sumInt
  simp only [List.map_append, List.map_cons, List.map_nil, sumInt_append, List.foldr_cons, List.foldr_nil]
  omega

/-- `Transition::add_vehicle_at_the_end` (repaired code) keeps the bookkeeping exact -/
theorem addEnd_consistent (nw : Network) (tr tr' : Transition) (v : Veh) (ci : Nat) (updated old : Tours)
    (hc : Consistent nw (overlay updated old) tr) (hnew : assocGet? tr.lookup v = none)
    (h : Transition.addVehicleAtTheEnd nw false tr v ci updated old = .ok tr') :
    Consistent nw (overlay updated old) tr' ∧
    (∀ w, w ∈ members tr' ↔ w ∈ members tr ∨ w = v) ∧ tr'.cycles.length = tr.cycles.length := by
  unfold Transition.addVehicleAtTheEnd at h
  obtain ⟨oc, hoc, h⟩ := bind_ok h
  obtain ⟨tv, htv, h⟩ := bind_ok h
  have hoc := unwrapO_ok hoc
  have hTv := tourOf_ok htv
  have hlt : ci < tr.cycles.length := (List.getElem?_eq_some_iff.mp hoc).1
  dsimp only at h
  have hvnot : v ∉ oc.vehicles := by
    intro hv
    have := (hc.lookup v ci).mpr ⟨oc, hoc, hv⟩
    rw [hnew] at this; cases this
  have hget' := lookupInsert_get tr.lookup v ci hc.keys
  have hkeys' := lookupInsert_keys tr.lookup v ci hc.keys
  have hmem : ∀ trn : Transition, Consistent nw (overlay updated old) trn → trn.lookup = Transition.lookupInsert tr.lookup v ci →
      ∀ w, w ∈ members trn ↔ w ∈ members tr ∨ w = v := by
    intro trn hcn hl w
    rw [mem_members_iff hcn, mem_members_iff hc, hl]
    simp only [hget']
    by_cases e : w = v
    · simp [e]
    · simp [e]
  have hl1 : ∀ w, assocGet? (Transition.lookupInsert tr.lookup v ci) w = some ci ↔ w ∈ oc.vehicles ++ [v] := by
    intro w; rw [hget']
    by_cases e : w = v
    · subst e; simp
    · simp only [e, ↓reduceIte]
      rw [hc.lookup w ci, hoc]
      simp [e]
  have hl2 : ∀ w (i : Nat), i ≠ ci → (assocGet? (Transition.lookupInsert tr.lookup v ci) w = some i ↔ assocGet? tr.lookup w = some i) := by
    intro w i hi; rw [hget']
    by_cases e : w = v
    · subst e; simp only [↓reduceIte, Option.some.injEq, hnew, reduceCtorEq, iff_false]; exact fun h => hi h.symm
    · simp [e]
  have hnd' : (oc.vehicles ++ [v]).Nodup := by
    rw [List.nodup_append]
    refine ⟨hc.cycNodup ci oc hoc, by simp, ?_⟩
    intro a ha b hb; simp at hb; subst hb; intro e; subst e; exact hvnot ha
  split at h
  · rename_i hlen
    obtain ⟨c, hself, h⟩ := bind_ok h
    simp only [pure, Except.pure, bind, Except.bind, Except.ok.injEq, Bool.false_eq_true, ↓reduceIte] at h
    subst h
    have hov : oc.vehicles = [] := by
      simp only [List.length_append, List.length_cons, List.length_nil, beq_iff_eq] at hlen
      exact List.eq_nil_of_length_eq_zero (by omega)
    obtain ⟨sv, ev, hsv, hev, hr⟩ := selfLoopCounter_ok hself
    have htour : ∀ w ∈ oc.vehicles ++ [v], Toured nw (overlay updated old) w := by
      intro w hw; simp only [hov, List.nil_append, List.mem_singleton] at hw; subst hw
      exact ⟨tv, sv, ev, hTv, hsv, hev⟩
    have hcons := consistent_set (T' := overlay updated old) hc ci oc ⟨oc.vehicles ++ [v], c⟩ hoc
      (Transition.lookupInsert tr.lookup v ci) (tr.empty.filter (· != ci))
      (fun _ _ _ _ _ _ => rfl) hnd' htour hkeys' hl1 hl2
      (hc.emptyNodup.sublist List.filter_sublist)
      (by simp) (by intro i hi; simp [hi])
      (by simp only [hov, List.nil_append, counterSpec, List.map_cons, List.map_nil, cyc_single, sumInt,
            List.foldr_cons, List.foldr_nil]
          rw [mcOf_eq hTv, linkOf_eq hTv hTv hev hsv, hr]; omega)
    exact ⟨hcons, hmem _ hcons rfl, by simp⟩
  · rename_i hlen
    obtain ⟨predV, hpredV, h⟩ := bind_ok h
    obtain ⟨pt, hpt, h⟩ := bind_ok h
    obtain ⟨e, he, h⟩ := bind_ok h
    obtain ⟨firstV, hfirstV, h⟩ := bind_ok h
    obtain ⟨ft, hft, h⟩ := bind_ok h
    obtain ⟨s, hs, h⟩ := bind_ok h
    obtain ⟨add, hadd, h⟩ := bind_ok h
    simp only [pure, Except.pure, bind, Except.bind, Except.ok.injEq, Bool.false_eq_true, ↓reduceIte] at h
    subst h
    have hne : oc.vehicles ≠ [] := by
      intro h0; apply hlen; simp [h0]
    have hpredV := unwrapO_ok hpredV
    have hfirstV := unwrapO_ok hfirstV
    have hlast : oc.vehicles.getLast? = some predV := by
      rw [← hpredV, List.getLast?_eq_getElem?]
      have : (oc.vehicles ++ [v]).length - 2 = oc.vehicles.length - 1 := by simp
      rw [this, List.getElem?_append_left]
      have := List.length_pos_iff.mpr hne; omega
    have hhead : oc.vehicles.head? = some firstV := by
      rw [← hfirstV, head?_append_ne hne]
    have hTp := tourOf_ok hpt
    have hTf := tourOf_ok hft
    have he := unwrapR_ok he
    have hs := unwrapR_ok hs
    obtain ⟨sv, ev, hsv, hev, hr⟩ := counterWithLinks_ok hadd
    have htour : ∀ w ∈ oc.vehicles ++ [v], Toured nw (overlay updated old) w := by
      intro w hw; simp only [List.mem_append, List.mem_singleton] at hw
      cases hw with
      | inl h => exact hc.toured ci oc hoc w h
      | inr h => subst h; exact ⟨tv, sv, ev, hTv, hsv, hev⟩
    have hcount : oc.counter - Transition.depotDist nw e s + add
        = counterSpec nw (overlay updated old) (oc.vehicles ++ [v]) := by
      rw [hc.counter ci oc hoc]
      unfold counterSpec
      rw [sumInt_map_snoc, cyc_append_single _ _ _ hne, hlast, hhead]
      simp only [connI]
      rw [linkOf_eq hTp hTf he hs, linkOf_eq hTp hTv he hsv, linkOf_eq hTv hTf hev hs, mcOf_eq hTv, hr]
      omega
    have hci_ne : ci ∉ tr.empty := by
      intro hemp
      obtain ⟨c, h1, h2⟩ := (hc.empty ci).mp hemp
      rw [hoc] at h1; cases h1; exact hne h2
    have hcons := consistent_set (T' := overlay updated old) hc ci oc
      ⟨oc.vehicles ++ [v], oc.counter - Transition.depotDist nw e s + add⟩ hoc
      (Transition.lookupInsert tr.lookup v ci) tr.empty
      (fun _ _ _ _ _ _ => rfl) hnd' htour hkeys' hl1 hl2 hc.emptyNodup
      (by simp [hci_ne]) (by intro i hi; rfl) hcount
    exact ⟨hcons, hmem _ hcons rfl, by simp⟩

theorem not_member_lookup {nw : Network} {T : TourMap} {tr : Transition} (hc : Consistent nw T tr) {v : Veh}
    (h : v ∉ members tr) : assocGet? tr.lookup v = none := by
  cases hg : assocGet? tr.lookup v with
  | none => rfl
  | some i => exact absurd ((mem_members_iff hc v).mpr ⟨i, hg⟩) h

/-- `Transition::move_vehicle` (the move of the transition local search): bookkeeping stays exact,
    the set of vehicles and the number of cycles are unchanged -/
theorem move_consistent (nw : Network) (tr tr' : Transition) (v : Veh) (ci : Nat) (tours : Tours)
    (hc : Consistent nw (overlay [] tours) tr)
    (h : Transition.moveVehicle nw false tr v ci tours = .ok tr') :
    Consistent nw (overlay [] tours) tr' ∧ (∀ w, w ∈ members tr' ↔ w ∈ members tr) ∧
    tr'.cycles.length = tr.cycles.length := by
  unfold Transition.moveVehicle at h
  obtain ⟨t1, h1, h⟩ := bind_ok h
  have hvmem : v ∈ members tr := by
    unfold Transition.removeVehicle at h1
    obtain ⟨ci0, hci0, _⟩ := bind_ok h1
    exact (mem_members_iff hc v).mpr ⟨ci0, unwrapO_ok hci0⟩
  obtain ⟨hc1, hm1, hlen1⟩ := remove_consistent nw tr t1 v [] tours hc (by simp [assocGet?_nil]) h1
  have hv1 : v ∉ members t1 := fun hm => ((hm1 v).mp hm).2 rfl
  obtain ⟨hc2, hm2, hlen2⟩ := addEnd_consistent nw t1 tr' v ci [] tours hc1 (not_member_lookup hc1 hv1) h
  refine ⟨hc2, ?_, by omega⟩
  intro w
  rw [hm2 w, hm1 w]
  by_cases e : w = v
  · subst e; simp [hvmem]
  · simp [e]

theorem overlay_cons (updated old : Tours) (v : Veh) (t : Tour) (w : Veh) :
    overlay ((v, t) :: updated) old w = if v = w then some t else overlay updated old w := by
  unfold overlay
  rw [assocGet?_cons]
  by_cases e : v = w <;> simp [e]

/-- `Transition::update_vehicle`: the counter delta is exact with respect to the tours after the
    update (the updated vehicle's own old tour is read from `old`, its neighbours through the
    overlay); cycles keep their vehicles and order -/
theorem update_consistent (nw : Network) (tr tr' : Transition) (v : Veh) (newTour : Tour) (updated old : Tours)
    (hc : Consistent nw (overlay updated old) tr) (hfresh : assocGet? updated v = none)
    (h : Transition.updateVehicle nw tr v newTour updated old = .ok tr') :
    Consistent nw (overlay ((v, newTour) :: updated) old) tr' ∧
    tr'.cycles.map (·.vehicles) = tr.cycles.map (·.vehicles) ∧ tr'.lookup = tr.lookup ∧ tr'.empty = tr.empty := by
  unfold Transition.updateVehicle at h
  obtain ⟨ot, hot, h⟩ := bind_ok h
  obtain ⟨ci, hci, h⟩ := bind_ok h
  obtain ⟨oc, hoc, h⟩ := bind_ok h
  have hot := unwrapO_ok hot
  have hci := unwrapO_ok hci
  have hoc := unwrapO_ok hoc
  dsimp only at h
  obtain ⟨hv, hlt, hne⟩ := member_facts hc hci hoc
  obtain ⟨pre, suf, hsplit, hvpre, hvsuf, hfilt, hidx⟩ := split_at_mem oc.vehicles v (hc.cycNodup ci oc hoc) hv
  have hTv : overlay updated old v = some ot := by simp [overlay, hfresh, hot]
  have hT'v : overlay ((v, newTour) :: updated) old v = some newTour := by simp [overlay_cons]
  have hT'w : ∀ w, w ≠ v → overlay ((v, newTour) :: updated) old w = overlay updated old w := by
    intro w hw; rw [overlay_cons]
    have : ¬ v = w := fun e => hw e.symm
    simp [this]
  have hT : ∀ (i : Nat) (c : Cycle), i ≠ ci → tr.cycles[i]? = some c → ∀ w ∈ c.vehicles,
      overlay ((v, newTour) :: updated) old w = overlay updated old w := by
    intro i c hi hci' w hw
    apply hT'w; intro e; subst e
    have := (hc.lookup w i).mpr ⟨c, hci', hw⟩
    rw [hci] at this; cases this; exact hi rfl
  have hsets : ∀ nc : Int, (tr.cycles.set ci ⟨oc.vehicles, nc⟩).map (·.vehicles) = tr.cycles.map (·.vehicles) := by
    intro nc
    rw [List.map_set]
    apply List.ext_getElem?
    intro j
    rw [getElem?_set' _ _ _ _ (by simpa using hlt)]
    by_cases e : j = ci
    · subst e; simp [hoc]
    · simp [e]
  have hnewdep : ∃ nc sv ev, tr' = { tr with
        cycles := tr.cycles.set ci { vehicles := oc.vehicles, counter := nc }
        totalViolation := (tr.totalViolation + posMax0 nc) - posMax0 oc.counter
        totalCounter := (tr.totalCounter + nc) - oc.counter } ∧
      newTour.startDepot nw = .ok sv ∧ newTour.endDepot nw = .ok ev ∧
      nc = counterSpec nw (overlay ((v, newTour) :: updated) old) oc.vehicles := by
    split at h
    · rename_i hlen
      obtain ⟨nc, hnc, h⟩ := bind_ok h
      simp only [pure, Except.pure, Except.ok.injEq] at h
      obtain ⟨sv, ev, hsv, hev, hr⟩ := selfLoopCounter_ok hnc
      refine ⟨nc, sv, ev, h.symm, hsv, hev, ?_⟩
      have hps : pre = [] ∧ suf = [] := by
        simp only [hsplit, List.length_append, List.length_cons, beq_iff_eq] at hlen
        exact ⟨List.eq_nil_of_length_eq_zero (by omega), List.eq_nil_of_length_eq_zero (by omega)⟩
      rw [hsplit, hps.1, hps.2]
      simp only [List.nil_append, counterSpec, List.map_cons, List.map_nil, cyc_single, sumInt,
        List.foldr_cons, List.foldr_nil]
      rw [mcOf_eq hT'v, linkOf_eq hT'v hT'v hev hsv, hr]; omega
    · rename_i hlen
      obtain ⟨⟨e, s⟩, hpe, h⟩ := bind_ok h
      obtain ⟨rem, hrem, h⟩ := bind_ok h
      obtain ⟨add, hadd, h⟩ := bind_ok h
      simp only [pure, Except.pure, bind, Except.bind, Except.ok.injEq] at h
      have hps : suf ++ pre ≠ [] := by
        intro h0; apply hlen
        simp only [List.append_eq_nil_iff] at h0; simp [hsplit, h0.1, h0.2]
      obtain ⟨ci2, oc2, pos, pred, succ, pt, st, h1, h2, h3, h4, h5, h6, h7, h8, h9⟩ := predEndSuccStart_ok hpe
      rw [hci] at h1; cases h1
      rw [hoc] at h2; cases h2
      rw [hidx] at h3; cases h3
      rw [hsplit, pred_spec pre suf v hps] at h4
      rw [hsplit, succ_spec pre suf v hps] at h5
      obtain ⟨sv, ev, hsv, hev, hr⟩ := counterWithLinks_ok hrem
      obtain ⟨sv', ev', hsv', hev', hr'⟩ := counterWithLinks_ok hadd
      dsimp only at hr hr'
      refine ⟨oc.counter - rem + add, sv', ev', h.symm, hsv', hev', ?_⟩
      have hpred_ne : pred ≠ v := by
        intro e; subst e
        have := List.mem_of_getLast? h4
        simp only [List.mem_append] at this; cases this with
        | inl h => exact hvsuf h
        | inr h => exact hvpre h
      have hsucc_ne : succ ≠ v := by
        intro e; subst e
        have := List.mem_of_head? h5
        simp only [List.mem_append] at this; cases this with
        | inl h => exact hvsuf h
        | inr h => exact hvpre h
      have h6' : overlay ((v, newTour) :: updated) old pred = some pt := by rw [hT'w pred hpred_ne]; exact h6
      have h7' : overlay ((v, newTour) :: updated) old succ = some st := by rw [hT'w succ hsucc_ne]; exact h7
      have hag : ∀ a b, a ∈ suf ++ pre → b ∈ suf ++ pre →
          linkOf nw (overlay updated old) a b = linkOf nw (overlay ((v, newTour) :: updated) old) a b := by
        intro a b ha hb
        have hav : a ≠ v := by
          intro e; subst e; simp only [List.mem_append] at ha; cases ha with
          | inl h => exact hvsuf h
          | inr h => exact hvpre h
        have hbv : b ≠ v := by
          intro e; subst e; simp only [List.mem_append] at hb; cases hb with
          | inl h => exact hvsuf h
          | inr h => exact hvpre h
        simp [linkOf, hT'w a hav, hT'w b hbv]
      have hmc : (pre ++ suf).map (mcOf nw (overlay ((v, newTour) :: updated) old))
          = (pre ++ suf).map (mcOf nw (overlay updated old)) := by
        apply List.map_congr_left; intro w hw
        have hwv : w ≠ v := by
          intro e; subst e; simp only [List.mem_append] at hw; cases hw with
          | inl h => exact hvpre h
          | inr h => exact hvsuf h
        simp [mcOf, hT'w w hwv]
      rw [hc.counter ci oc hoc, hsplit]
      unfold counterSpec
      rw [sumInt_map_split, sumInt_map_split, hmc,
        cyc_update (linkOf nw (overlay updated old)) (linkOf nw (overlay ((v, newTour) :: updated) old)) pre suf v hps hag,
        h4, h5]
      simp only [connI]
      rw [linkOf_eq h6 hTv h8 hsv, linkOf_eq hTv h7 hev h9, linkOf_eq h6' hT'v h8 hsv', linkOf_eq hT'v h7' hev' h9,
        mcOf_eq hTv, mcOf_eq hT'v, hr, hr']
      omega
  obtain ⟨nc, sv', ev', htr', hsv', hev', hcount⟩ := hnewdep
  subst htr'
  have htour : ∀ w ∈ oc.vehicles, Toured nw (overlay ((v, newTour) :: updated) old) w := by
    intro w hw
    by_cases e : w = v
    · subst e; exact ⟨newTour, sv', ev', hT'v, hsv', hev'⟩
    · exact toured_congr (hT'w w e) (hc.toured ci oc hoc w hw)
  have hcons := consistent_set (T' := overlay ((v, newTour) :: updated) old) hc ci oc ⟨oc.vehicles, nc⟩ hoc
    tr.lookup tr.empty hT (hc.cycNodup ci oc hoc) htour hc.keys
    (by intro w; rw [hc.lookup w ci, hoc]; simp)
    (by intro w i hi; rfl) hc.emptyNodup
    (by rw [hc.empty ci, hoc]; simp) (by intro i hi; rfl) hcount
  exact ⟨hcons, hsets nc, rfl, rfl⟩

theorem sumInt_snoc (l : List Int) (x : Int) : sumInt (l ++ [x]) = sumInt l + x := by
  unfold sumInt; rw [sumInt_append]; simp

/-- `Transition::add_vehicle_to_own_cycle`: a new one-vehicle cycle (appended, or put into the most
    recently emptied cycle) with the self-loop counter -/
theorem addOwn_consistent (nw : Network) (tr tr' : Transition) (v : Veh) (newTour : Tour) (updated old : Tours)
    (hc : Consistent nw (overlay updated old) tr) (hnew : assocGet? tr.lookup v = none)
    (h : Transition.addVehicleToOwnCycle nw tr v newTour = .ok tr') :
    Consistent nw (overlay ((v, newTour) :: updated) old) tr' ∧
    (∀ w, w ∈ members tr' ↔ w ∈ members tr ∨ w = v) := by
  unfold Transition.addVehicleToOwnCycle at h
  obtain ⟨c, hself, h⟩ := bind_ok h
  obtain ⟨sv, ev, hsv, hev, hr⟩ := selfLoopCounter_ok hself
  dsimp only at h
  have hT'v : overlay ((v, newTour) :: updated) old v = some newTour := by simp [overlay_cons]
  have hT'w : ∀ w, w ≠ v → overlay ((v, newTour) :: updated) old w = overlay updated old w := by
    intro w hw; rw [overlay_cons]
    have : ¬ v = w := fun e => hw e.symm
    simp [this]
  have hnotin : ∀ (i : Nat) (c : Cycle), tr.cycles[i]? = some c → v ∉ c.vehicles := by
    intro i c hi hv
    have := (hc.lookup v i).mpr ⟨c, hi, hv⟩
    rw [hnew] at this; cases this
  have hTall : ∀ (i : Nat) (c : Cycle), tr.cycles[i]? = some c → ∀ w ∈ c.vehicles,
      overlay ((v, newTour) :: updated) old w = overlay updated old w := by
    intro i c hi w hw; apply hT'w; intro e; subst e; exact hnotin i c hi hw
  have hcount : c = counterSpec nw (overlay ((v, newTour) :: updated) old) [v] := by
    simp only [counterSpec, List.map_cons, List.map_nil, cyc_single, sumInt, List.foldr_cons, List.foldr_nil]
    rw [mcOf_eq hT'v, linkOf_eq hT'v hT'v hev hsv, hr]; omega
  have htour : ∀ w ∈ [v], Toured nw (overlay ((v, newTour) :: updated) old) w := by
    intro w hw; simp only [List.mem_singleton] at hw; subst hw
    exact ⟨newTour, sv, ev, hT'v, hsv, hev⟩
  have hmem : ∀ (trn : Transition) (k : Nat), Consistent nw (overlay ((v, newTour) :: updated) old) trn →
      trn.lookup = Transition.lookupInsert tr.lookup v k →
      ∀ w, w ∈ members trn ↔ w ∈ members tr ∨ w = v := by
    intro trn k hcn hl w
    rw [mem_members_iff hcn, mem_members_iff hc, hl]
    simp only [lookupInsert_get tr.lookup v k hc.keys]
    by_cases e : w = v
    · simp [e]
    · simp [e]
  split at h
  · -- no reusable cycle: append
    rename_i hnone
    simp only [pure, Except.pure, Except.ok.injEq] at h
    subst h
    have hget : ∀ j : Nat, (tr.cycles ++ [(⟨[v], c⟩ : Cycle)])[j]? =
        if j < tr.cycles.length then tr.cycles[j]? else if j = tr.cycles.length then some ⟨[v], c⟩ else none := by
      intro j
      by_cases h1 : j < tr.cycles.length
      · simp [h1, List.getElem?_append_left h1]
      · simp only [h1, ↓reduceIte]
        rw [List.getElem?_append_right (by omega)]
        by_cases h2 : j = tr.cycles.length
        · simp [h2]
        · simp only [h2, ↓reduceIte]
          have : j - tr.cycles.length ≠ 0 := by omega
          cases hk : j - tr.cycles.length with
          | zero => exact absurd hk this
          | succ n => simp
    have hold : ∀ (j : Nat) (cj : Cycle), tr.cycles[j]? = some cj → j < tr.cycles.length :=
      fun j cj hj => (List.getElem?_eq_some_iff.mp hj).1
    have hge := lookupInsert_get tr.lookup v tr.cycles.length hc.keys
    have hcons : Consistent nw (overlay ((v, newTour) :: updated) old)
        { cycles := tr.cycles ++ [⟨[v], c⟩], totalViolation := tr.totalViolation + posMax0 c,
          totalCounter := tr.totalCounter + c, lookup := Transition.lookupInsert tr.lookup v tr.cycles.length,
          empty := tr.empty } := by
      constructor
      · intro i ci hi; simp only [hget] at hi
        split at hi
        · exact hc.cycNodup i ci hi
        · split at hi
          · cases hi; simp
          · cases hi
      · intro i ci hi w hw; simp only [hget] at hi
        split at hi
        · exact toured_congr (hTall i ci hi w hw) (hc.toured i ci hi w hw)
        · split at hi
          · cases hi; exact htour w hw
          · cases hi
      · exact lookupInsert_keys tr.lookup v tr.cycles.length hc.keys
      · intro w i; simp only [hget, hge]
        by_cases e : w = v
        · subst e
          simp only [↓reduceIte, Option.some.injEq]
          constructor
          · intro hi; subst hi; simp
          · rintro ⟨cj, hcj, hw⟩
            split at hcj
            · exact absurd hw (hnotin i cj hcj)
            · split at hcj
              · rename_i h2; exact h2.symm
              · cases hcj
        · simp only [e, ↓reduceIte]
          rw [hc.lookup w i]
          constructor
          · rintro ⟨cj, hcj, hw⟩; exact ⟨cj, by simp only [hold i cj hcj, ↓reduceIte]; exact hcj, hw⟩
          · rintro ⟨cj, hcj, hw⟩
            split at hcj
            · exact ⟨cj, hcj, hw⟩
            · split at hcj
              · cases hcj; simp only [List.mem_singleton] at hw; exact absurd hw e
              · cases hcj
      · exact hc.emptyNodup
      · intro i; simp only [hget]
        rw [hc.empty i]
        constructor
        · rintro ⟨cj, hcj, hw⟩; exact ⟨cj, by simp only [hold i cj hcj, ↓reduceIte]; exact hcj, hw⟩
        · rintro ⟨cj, hcj, hw⟩
          split at hcj
          · exact ⟨cj, hcj, hw⟩
          · split at hcj
            · cases hcj; simp at hw
            · cases hcj
      · intro i ci hi; simp only [hget] at hi
        split at hi
        · rw [hc.counter i ci hi]
          exact (counterSpec_congr nw _ _ ci.vehicles (hTall i ci hi)).symm
        · split at hi
          · cases hi; exact hcount
          · cases hi
      · simp only [sumViolations, List.map_append, List.map_cons, List.map_nil, sumInt_snoc]
        rw [hc.totV]; rfl
      · simp only [sumCounters, List.map_append, List.map_cons, List.map_nil, sumInt_snoc]
        rw [hc.totC]; rfl
    exact ⟨hcons, hmem _ _ hcons rfl⟩
  · rename_i ei hlast
    split at h
    · rename_i hlt
      simp only [pure, Except.pure, Except.ok.injEq] at h
      subst h
      have hei : ei ∈ tr.empty := List.mem_of_getLast? hlast
      obtain ⟨oc, hoc, hov⟩ := (hc.empty ei).mp hei
      have hoc0 : oc.counter = 0 := by
        rw [hc.counter ei oc hoc, hov]; simp [counterSpec, sumInt]
      have hdl : tr.empty = tr.empty.dropLast ++ [ei] := by
        obtain ⟨ys, hys⟩ := List.getLast?_eq_some_iff.mp hlast
        rw [hys, List.dropLast_concat]
      have hnd := hc.emptyNodup
      rw [hdl, List.nodup_append] at hnd
      have hge := lookupInsert_get tr.lookup v ei hc.keys
      have hcons := consistent_set (T' := overlay ((v, newTour) :: updated) old) hc ei oc ⟨[v], c⟩ hoc
        (Transition.lookupInsert tr.lookup v ei) tr.empty.dropLast
        (fun i cj _ hcj w hw => hTall i cj hcj w hw) (by simp) htour
        (lookupInsert_keys tr.lookup v ei hc.keys)
        (by intro w; rw [hge]
            by_cases e : w = v
            · simp [e]
            · simp only [e, ↓reduceIte, List.mem_singleton, iff_false]
              intro hw
              obtain ⟨cj, hcj, hwm⟩ := (hc.lookup w ei).mp hw
              rw [hoc] at hcj; cases hcj; rw [hov] at hwm; cases hwm)
        (by intro w i hi; rw [hge]
            by_cases e : w = v
            · subst e; simp only [↓reduceIte, Option.some.injEq, hnew, reduceCtorEq, iff_false]
              exact fun h => hi h.symm
            · simp [e])
        hnd.1
        (by simp only [List.cons_ne_self, iff_false, reduceCtorEq]
            intro hm; exact hnd.2.2 ei hm ei (by simp) rfl)
        (by intro i hi
            conv => rhs; rw [hdl]
            simp [hi])
        hcount
      have htv : tr.totalViolation + posMax0 c = (tr.totalViolation + posMax0 c) - posMax0 oc.counter := by
        simp [hoc0, posMax0]
      have htc : tr.totalCounter + c = (tr.totalCounter + c) - oc.counter := by simp [hoc0]
      rw [htv, htc]
      exact ⟨hcons, hmem _ _ hcons rfl⟩
    · cases h

/-- `Transition::replace_cycle` with a reordered cycle whose counter is exact -/
theorem replace_consistent (nw : Network) (T : TourMap) (tr tr' : Transition) (ci : Nat) (oc c' : Cycle)
    (hc : Consistent nw T tr) (hoc : tr.cycles[ci]? = some oc) (hperm : c'.vehicles.Perm oc.vehicles)
    (hcount : c'.counter = counterSpec nw T c'.vehicles)
    (h : Transition.replaceCycle tr ci c' = .ok tr') :
    Consistent nw T tr' ∧ (∀ w, w ∈ members tr' ↔ w ∈ members tr) ∧ tr'.cycles.length = tr.cycles.length := by
  unfold Transition.replaceCycle at h
  obtain ⟨oc2, hoc2, h⟩ := bind_ok h
  have hoc2 := unwrapO_ok hoc2
  rw [hoc] at hoc2; cases hoc2
  simp only [pure, Except.pure, Except.ok.injEq] at h
  subst h
  have hcons := consistent_set (T' := T) hc ci oc c' hoc tr.lookup tr.empty
    (fun _ _ _ _ _ _ => rfl) (hperm.nodup_iff.mpr (hc.cycNodup ci oc hoc))
    (fun w hw => hc.toured ci oc hoc w (hperm.mem_iff.mp hw)) hc.keys
    (by intro w; rw [hc.lookup w ci, hoc]; simp [hperm.mem_iff])
    (by intro w i hi; rfl) hc.emptyNodup
    (by rw [hc.empty ci, hoc]
        simp only [Option.some.injEq, exists_eq_left']
        constructor
        · intro h0; rw [h0] at hperm; exact List.Perm.eq_nil hperm
        · intro h0; rw [h0] at hperm; exact List.Perm.eq_nil hperm.symm)
    (by intro i hi; rfl) hcount
  refine ⟨hcons, ?_, by simp⟩
  intro w
  rw [mem_members_iff hcons, mem_members_iff hc]

theorem tourAt_ok {c : Cycle} {tours : Tours} {p : Nat} {t : Tour}
    (h : (do let v ← unwrapO c.vehicles[p]? "cycle[i]"
             unwrapO (assocGet? tours v) "tours.get(cycle[i]).unwrap()" : R Tour) = .ok t) :
    ∃ v, c.vehicles[p]? = some v ∧ overlay [] tours v = some t := by
  obtain ⟨v, hv, h⟩ := bind_ok h
  exact ⟨v, unwrapO_ok hv, by simp [overlay, assocGet?_nil, unwrapO_ok h]⟩

/-- `TransitionCycle::three_opt`: the reordered cycle is `[..i] ++ (j..k] ++ (i..j] ++ (k..]` and its
    incrementally computed counter equals the recomputation, for all `i < j < k` -/
theorem threeOpt_exact (nw : Network) (c c' : Cycle) (i j k : Nat) (tours : Tours)
    (hcount : c.counter = counterSpec nw (overlay [] tours) c.vehicles) (h1 : i < j) (h2 : j < k)
    (h : Transition.threeOpt nw c i j k tours = .ok c') :
    c'.vehicles = Transition.threeOptOrder c.vehicles i j k ∧
    c'.counter = counterSpec nw (overlay [] tours) c'.vehicles := by
  unfold Transition.threeOpt at h
  split at h
  · cases h
  · rename_i counter hcnt
    split at h
    · rename_i hb
      simp only [Except.ok.injEq] at h
      subst h
      refine ⟨rfl, ?_⟩
      have h3 : k < c.vehicles.length := by omega
      obtain ⟨hvs, hA, hB, hC, hAl, hBh, hBl, hCh, hCl, hXh⟩ := threeOpt_blocks c.vehicles i j k h1 h2 h3
      unfold Transition.threeOptCounter at hcnt
      dsimp only at hcnt
      split at hcnt
      · cases hcnt
      · obtain ⟨ti, hti, hcnt⟩ := bind_ok hcnt
        obtain ⟨ei, hei, hcnt⟩ := bind_ok hcnt
        obtain ⟨ti1, hti1, hcnt⟩ := bind_ok hcnt
        obtain ⟨si1, hsi1, hcnt⟩ := bind_ok hcnt
        obtain ⟨tj, htj, hcnt⟩ := bind_ok hcnt
        obtain ⟨ej, hej, hcnt⟩ := bind_ok hcnt
        obtain ⟨tj1, htj1, hcnt⟩ := bind_ok hcnt
        obtain ⟨sj1, hsj1, hcnt⟩ := bind_ok hcnt
        obtain ⟨tk, htk, hcnt⟩ := bind_ok hcnt
        obtain ⟨ek, hek, hcnt⟩ := bind_ok hcnt
        obtain ⟨tk1, htk1, hcnt⟩ := bind_ok hcnt
        obtain ⟨sk1, hsk1, hcnt⟩ := bind_ok hcnt
        simp only [pure, Except.pure, Except.ok.injEq] at hcnt
        obtain ⟨vi, hvi, hTi⟩ := tourAt_ok hti
        obtain ⟨vi1, hvi1, hTi1⟩ := tourAt_ok hti1
        obtain ⟨vj, hvj, hTj⟩ := tourAt_ok htj
        obtain ⟨vj1, hvj1, hTj1⟩ := tourAt_ok htj1
        obtain ⟨vk, hvk, hTk⟩ := tourAt_ok htk
        obtain ⟨vk1, hvk1, hTk1⟩ := tourAt_ok htk1
        have hei := unwrapR_ok hei
        have hej := unwrapR_ok hej
        have hek := unwrapR_ok hek
        have hsi1 := unwrapR_ok hsi1
        have hsj1 := unwrapR_ok hsj1
        have hsk1 := unwrapR_ok hsk1
        rw [Nat.mod_eq_of_lt (by omega : i + 1 < c.vehicles.length)] at hvi1
        rw [Nat.mod_eq_of_lt (by omega : j + 1 < c.vehicles.length)] at hvj1
        -- the cycle and its reordering, both rotated to start with the last block
        generalize hAd : c.vehicles.take (i + 1) = A at *
        generalize hBd : (c.vehicles.drop (i + 1)).take (j - i) = B at *
        generalize hCd : (c.vehicles.drop (j + 1)).take (k - j) = C at *
        generalize hDd : c.vehicles.drop (k + 1) = D at *
        have hXne : D ++ A ≠ [] := by simp [hA]
        have hXl : (D ++ A).getLast? = A.getLast? := getLast?_append_ne hA
        have hold : cyc (linkOf nw (overlay [] tours)) c.vehicles
            = cyc (linkOf nw (overlay [] tours)) ((D ++ A) ++ B ++ C) := by
          conv => lhs; rw [hvs]
          rw [show A ++ B ++ C ++ D = (A ++ B ++ C) ++ D by simp, cyc_rotate]
          simp only [List.append_assoc]
        have hnew : cyc (linkOf nw (overlay [] tours)) (Transition.threeOptOrder c.vehicles i j k)
            = cyc (linkOf nw (overlay [] tours)) ((D ++ A) ++ C ++ B) := by
          unfold Transition.threeOptOrder
          rw [hAd, hBd, hCd, hDd, show A ++ C ++ B ++ D = (A ++ C ++ B) ++ D by simp, cyc_rotate]
          simp only [List.append_assoc]
        have hmc : sumInt ((Transition.threeOptOrder c.vehicles i j k).map (mcOf nw (overlay [] tours)))
            = sumInt (c.vehicles.map (mcOf nw (overlay [] tours))) := by
          conv => rhs; rw [hvs]
          unfold Transition.threeOptOrder sumInt
          rw [hAd, hBd, hCd, hDd]
          simp only [List.map_append]
          exact foldr_add_perm4 _ _ _ _
        unfold counterSpec
        simp only
        rw [hmc, hnew, cyc_swap_blocks _ _ _ _ hXne hB hC, ← hold, hXl, hAl, hBh, hBl, hCh, hCl, hXh,
          hvi, hvi1, hvj, hvj1, hvk, hvk1]
        simp only [connI]
        rw [linkOf_eq hTi hTi1 hei hsi1, linkOf_eq hTj hTj1 hej hsj1, linkOf_eq hTk hTk1 hek hsk1,
          linkOf_eq hTi hTj1 hei hsj1, linkOf_eq hTk hTi1 hek hsi1, linkOf_eq hTj hTk1 hej hsk1,
          ← hcnt, hcount]
        unfold counterSpec
        omega
    · cases h

end RSSched.C15
