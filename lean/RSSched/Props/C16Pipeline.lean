/-
Props/C16Pipeline: the whole pipeline of `solve_instance`, as modelled by `Solve.solve`, only ever
produces schedules that public modifications (plus `set_next_day_transitions`) build from the empty
schedule — for every decoded flow, every number of local-search steps and every transition
optimiser. Hence the invariants proved for every history hold at every stage and for the returned
schedule (C01/C02/C10 at pipeline level, C16: each stage is applied to the result of the one before).
-/
import RSSched.Props.C11Swaps
namespace RSSched.C16P
open RSSched Schedule Solve C02 Spec C15 C11S

/-- schedules the pipeline can hold: built from the empty schedule by public modifications and by
    replacing the transitions wholesale -/
inductive PReach (nw : Network) : Schedule → Prop
  | empty : PReach nw (Schedule.empty nw)
  | ops {s c : Schedule} : PReach nw s → Reaches nw s c → PReach nw c
  | setTransitions {s : Schedule} (trans : List (Nat × Transition)) : (trans.map (·.1)).Nodup → PReach nw s →
      PReach nw (setNextDayTransitions s trans)

/-- the invariants of C02Limits, C10Listing, C10Tours, C09Costs (dummy keys) and C09Sched together -/
structure StageInv (nw : Network) (s : Schedule) : Prop where
  limits : FormLimits nw s.formations
  tinv : C10S.TInv nw s
  viol : C09S.ViolExact s.transitions s.violation

theorem stageInv_of_preach (nw : Network) (hdt : C17.DepotTimes nw) (hw : NodesWF' nw) :
    ∀ {s : Schedule}, PReach nw s → StageInv nw s := by
  intro s h
  induction h with
  | empty =>
    exact ⟨C02_limits_from_empty nw [] _ rfl, C10S.C10_tours_from_empty nw hdt hw [] _ rfl,
      C09S.C09_violation_from_empty nw [] _ rfl⟩
  | ops _ hr ih => exact ⟨limits_of_reaches ih.limits hr, tinv_of_reaches hdt hw ih.tinv hr, viol_of_reaches ih.viol hr⟩
  | setTransitions trans hnd _ ih =>
    refine ⟨ih.limits, ⟨ih.tinv.listing, ih.tinv.dummies, ih.tinv.tours⟩, ?_⟩
    exact ⟨hnd, rfl⟩

/-! ### the stages -/

theorem spawnFold_reach (nw : Network) (vt : Nat) : ∀ (tours : List (List Nat)) (s c : Schedule),
    tours.foldlM (fun (sc : Schedule) tour => do
      let (s', _) ← spawnVehicleForPath nw sc vt tour
      pure s') s = .ok c → Reaches nw s c
  | [], s, c, h => by
    simp only [List.foldlM_nil, pure, Except.pure, Except.ok.injEq] at h; rw [← h]; exact Reaches.refl nw s
  | t :: rest, s, c, h => by
    rw [List.foldlM_cons] at h
    obtain ⟨s1, h1, h⟩ := bind_ok h
    obtain ⟨⟨s', v⟩, hs, h1⟩ := bind_ok h1
    simp only [pure, Except.pure, Except.ok.injEq] at h1
    subst h1
    exact (reach_spawn hs).trans (spawnFold_reach nw vt rest _ c h)

theorem fromToursFold_reach (nw : Network) : ∀ (byType : List (Nat × List (List Nat))) (s c : Schedule),
    byType.foldlM (fun (sch : Schedule) (p : Nat × List (List Nat)) =>
      p.2.foldlM (fun (sc : Schedule) tour => do
        let (s', _) ← spawnVehicleForPath nw sc p.1 tour
        pure s') sch) s = .ok c → Reaches nw s c
  | [], s, c, h => by
    simp only [List.foldlM_nil, pure, Except.pure, Except.ok.injEq] at h; rw [← h]; exact Reaches.refl nw s
  | p :: rest, s, c, h => by
    rw [List.foldlM_cons] at h
    obtain ⟨s1, h1, h⟩ := bind_ok h
    exact (spawnFold_reach nw p.1 p.2 s s1 h1).trans (fromToursFold_reach nw rest s1 c h)

/-- `Schedule::from_tours` is a sequence of `spawn_vehicle_for_path` -/
theorem fromTours_reach {nw : Network} {byType : List (Nat × List (List Nat))} {c : Schedule}
    (h : fromTours nw byType = .ok c) : Reaches nw (Schedule.empty nw) c :=
  fromToursFold_reach nw byType _ c h

theorem reach_endConsistent {nw : Network} {s s' : Schedule}
    (h : reassignEndDepotsConsistent nw s = .ok s') : Reaches nw s s' := by
  have : applyOp nw s .endConsistent = .ok { sched := s' } := by simp [applyOp, h, bind, Except.bind, pure, Except.pure]
  exact Reaches.of_op this

/-- every stage of the modelled pipeline holds a `PReach` schedule -/
theorem solve_preach {nw : Network} {o : Oracle} {tr : Trace}
    (hopt : ∀ s, ((o.optimise s).map (·.1)).Nodup) (h : solve nw o = .ok tr) :
    PReach nw tr.flow ∧ PReach nw tr.start ∧ PReach nw tr.afterSearch ∧ PReach nw tr.withTransitions ∧
    PReach nw tr.final := by
  unfold solve at h
  obtain ⟨flow, hf, h⟩ := bind_ok h
  obtain ⟨start, hs, h⟩ := bind_ok h
  dsimp only at h
  obtain ⟨final, hfin, h⟩ := bind_ok h
  simp only [pure, Except.pure, Except.ok.injEq] at h
  subst h
  dsimp only
  have p1 : PReach nw flow := PReach.ops PReach.empty (fromTours_reach hf)
  have p2 : PReach nw start := PReach.ops p1 (reach_improve hs)
  have p3 : PReach nw (if nw.maintNodes.isEmpty then start
      else (searchFuel Schedule.objective (nbrs nw o.limit o.threshold) o.fuel start).1) := by
    split
    · exact p2
    · exact PReach.ops p2 (search_reach nw o.limit o.threshold o.fuel start)
  have p4 := PReach.setTransitions (o.optimise (if nw.maintNodes.isEmpty then start
      else (searchFuel Schedule.objective (nbrs nw o.limit o.threshold) o.fuel start).1)) (hopt _) p3
  exact ⟨p1, p2, p3, p4, PReach.ops p4 (reach_endConsistent hfin)⟩

/-- **C01 / C02 / C10 at pipeline level, C16**: for every network (hypotheses `tourHypsB`), every
    decoded flow, every number of local-search steps and every transition optimiser — if the modelled
    `solve_instance` returns, then the start schedule, the local-search result, the schedule carrying
    the optimised transitions and the returned schedule all satisfy: every formation within
    min(type limit, segment limit) / track count; vehicle listing exact; every real tour a
    connectable depot-to-depot chain; cached violation = Σ per-type totals. And the wiring is the
    documented one: the returned schedule is the end-depot alignment of the schedule that carries the
    optimiser's transitions on the local-search result of the improved flow start. -/
theorem C16_pipeline_stages_valid (nw : Network) (hdt : C17.DepotTimes nw) (hw : NodesWF' nw) (o : Oracle)
    (hopt : ∀ s, ((o.optimise s).map (·.1)).Nodup) (tr : Trace) (h : solve nw o = .ok tr) :
    (StageInv nw tr.start ∧ StageInv nw tr.afterSearch ∧ StageInv nw tr.withTransitions ∧ StageInv nw tr.final) ∧
    fromTours nw o.tours = .ok tr.flow ∧
    improveDepots nw tr.flow none = .ok tr.start ∧
    tr.afterSearch = (if nw.maintNodes.isEmpty then tr.start
      else (searchFuel Schedule.objective (nbrs nw o.limit o.threshold) o.fuel tr.start).1) ∧
    tr.withTransitions = setNextDayTransitions tr.afterSearch (o.optimise tr.afterSearch) ∧
    reassignEndDepotsConsistent nw tr.withTransitions = .ok tr.final := by
  obtain ⟨_, p2, p3, p4, p5⟩ := solve_preach hopt h
  refine ⟨⟨stageInv_of_preach nw hdt hw p2, stageInv_of_preach nw hdt hw p3, stageInv_of_preach nw hdt hw p4,
    stageInv_of_preach nw hdt hw p5⟩, ?_⟩
  unfold solve at h
  obtain ⟨flow, hf, h⟩ := bind_ok h
  obtain ⟨start, hs, h⟩ := bind_ok h
  dsimp only at h
  obtain ⟨final, hfin, h⟩ := bind_ok h
  simp only [pure, Except.pure, Except.ok.injEq] at h
  subst h
  exact ⟨hf, hs, rfl, rfl, hfin⟩

/-- the returned schedule keeps what the last stage may not touch (C05_reassign): activities and
    start depot of every vehicle of the local-search result, and the optimiser's cycles -/
theorem C16_final_carries_optimised (nw : Network) (o : Oracle) (tr : Trace) (h : solve nw o = .ok tr) :
    tr.final.formations = tr.afterSearch.formations ∧ tr.final.vehicles = tr.afterSearch.vehicles ∧
    tr.withTransitions.transitions = o.optimise tr.afterSearch := by
  unfold solve at h
  obtain ⟨flow, hf, h⟩ := bind_ok h
  obtain ⟨start, hs, h⟩ := bind_ok h
  dsimp only at h
  obtain ⟨final, hfin, h⟩ := bind_ok h
  simp only [pure, Except.pure, Except.ok.injEq] at h
  subst h
  have := C05.C05_reassign nw _ _ hfin
  exact ⟨this.2.2.2.1, this.2.2.1, rfl⟩

end RSSched.C16P
