/-
Props/C17: the loaded network encodes the instance; reachability and the enumerations are exact.
All theorems are about `Instance.load` / `Network.*` of Model/Network.lean, which the `net` scope
compares query by query with the real loader on every run.
-/
import RSSched.Model.Network
namespace RSSched.C17
open RSSched Network

/-! ### the documented timing rule, stated declaratively -/

/-- required turnaround between two activities: minimal shunting when staying at the same
    location, dead-head travel time plus dead-head shunting on each non-depot side otherwise -/
def Turnaround (nw : Network) (n1 n2 : Node) : Dur :=
  if n1.endLoc = n2.startLoc then
    (if isActivity n1 && isActivity n2 then Dur.len nw.shuntMin else Dur.len 0)
  else
    Dur.add (nw.travelTime n1.endLoc n2.startLoc)
      (Dur.add (if isActivity n1 then Dur.len nw.shuntDH else Dur.len 0)
               (if isActivity n2 then Dur.len nw.shuntDH else Dur.len 0))

/-- "One activity can reach another exactly when the documented timing rule holds." -/
def ReachSpec (nw : Network) (n1 n2 : Node) : Prop :=
  n2.kind ≠ .startDepot ∧ n1.kind ≠ .endDepot ∧
  (n1.kind = .startDepot ∨ n2.kind = .endDepot ∨
    ((nw.forbidDH = true → n1.endLoc = n2.startLoc) ∧
      ExtTime.le (ExtTime.add n1.endT (Turnaround nw n1 n2)) n2.startT = true))

theorem C17_reach (nw : Network) (n1 n2 : Node) :
    nw.canReachNodes n1 n2 = true ↔ ReachSpec nw n1 n2 := by
  unfold canReachNodes ReachSpec Turnaround minDurNodes shuntNoDH shuntWithDH
    Node.isStartDepot Node.isEndDepot
  cases h1 : n1.kind <;> cases h2 : n2.kind <;> cases hf : nw.forbidDH <;>
    by_cases hl : n1.endLoc = n2.startLoc <;> simp_all

/-! ### time monotonicity: reaching implies "ends no later than the other starts" -/

theorem ExtTime.le_refl (t : ExtTime) : ExtTime.le t t = true := by
  cases t <;> simp [ExtTime.le]

theorem ExtTime.le_trans {a b c : ExtTime} (h1 : ExtTime.le a b = true) (h2 : ExtTime.le b c = true) :
    ExtTime.le a c = true := by
  cases a <;> cases b <;> cases c <;> simp_all [ExtTime.le] <;> omega

theorem ExtTime.le_add (t : ExtTime) (d : Dur) : ExtTime.le t (ExtTime.add t d) = true := by
  cases t <;> cases d <;> simp [ExtTime.le, ExtTime.add]

theorem ExtTime.le_antisymm {a b : ExtTime} (h1 : ExtTime.le a b = true) (h2 : ExtTime.le b a = true) :
    a = b := by
  cases a <;> cases b <;> simp_all [ExtTime.le] <;> omega

theorem ExtTime.le_total (a b : ExtTime) : ExtTime.le a b = true ∨ ExtTime.le b a = true := by
  cases a <;> cases b <;> simp [ExtTime.le] <;> omega

/-- depot nodes of a network carry the artificial times of `Node::start_time`/`end_time` -/
structure DepotTimes (nw : Network) : Prop where
  start : ∀ i, (nw.node i).kind = .startDepot → (nw.node i).endT = .earliest
  stop : ∀ i, (nw.node i).kind = .endDepot → (nw.node i).startT = .latest

theorem reach_end_le_start (nw : Network) (hd : DepotTimes nw) (a b : Nat)
    (h : nw.canReach a b = true) : ExtTime.le (nw.node a).endT (nw.node b).startT = true := by
  unfold canReach canReachNodes at h
  by_cases hs : (nw.node a).kind = .startDepot
  · rw [hd.start a hs]; simp [ExtTime.le]
  · by_cases he : (nw.node b).kind = .endDepot
    · rw [hd.stop b he]; cases (nw.node a).endT <;> simp [ExtTime.le]
    · simp [Node.isStartDepot, Node.isEndDepot, hs, he] at h
      exact ExtTime.le_trans (ExtTime.le_add _ _) h.2.2

/-! ### enumerations -/

/-- the per-type index the enumerations range over: service trips of the type, all maintenance
    slots, all depot nodes -/
def InIndex (nw : Network) (vt i : Nat) : Prop :=
  i < nw.size ∧ nw.inTypeIndex vt i = true

instance (nw : Network) (vt i : Nat) : Decidable (InIndex nw vt i) := by
  unfold InIndex; infer_instance

theorem mem_typeIndex (nw : Network) (vt i : Nat) : i ∈ nw.typeIndex vt ↔ InIndex nw vt i := by
  simp [typeIndex, allIdx, InIndex, size]

theorem keyLt_smallest_false (t : ExtTime) (n : Node) (t' : ExtTime)
    (h : ExtTime.le t' t = true) : keyLt t n t' smallestNode = false := by
  unfold keyLt ExtTime.lt nodeKeyLt smallestNode
  cases hk : n.kind <;> simp [Kind.rank] <;> intro h1 <;> exact ExtTime.le_antisymm h1 h

/-- **successors are exact** (ties included): `b` is listed among the successors of `a` for type
    `vt` iff it belongs to the type's index and `a` can reach it. -/
theorem C17_succ_exact (nw : Network) (hd : DepotTimes nw) (vt a b : Nat) :
    b ∈ nw.successors vt a ↔ InIndex nw vt b ∧ nw.canReach a b = true := by
  unfold successors typeNodesSortedByStart
  simp only [List.mem_filter, List.mem_mergeSort, mem_typeIndex]
  constructor
  · rintro ⟨⟨hi, _⟩, hr⟩; exact ⟨hi, hr⟩
  · rintro ⟨hi, hr⟩
    refine ⟨⟨hi, ?_⟩, hr⟩
    simp [keyLt_smallest_false _ _ _ (reach_end_le_start nw hd a b hr)]

theorem keyLt_largest_false (t : ExtTime) (n : Node) (t' : ExtTime)
    (h : ExtTime.le t t' = true) (hidx : n.idx ≤ 65535) : keyLt t' largestNode t n = false := by
  unfold keyLt ExtTime.lt nodeKeyLt largestNode
  cases hk : n.kind <;> simp [Kind.rank] <;>
    first
      | (intro h1; exact ExtTime.le_antisymm h1 h)
      | (exact ⟨fun h1 => ExtTime.le_antisymm h1 h, fun _ => hidx⟩)

/-- **predecessors are exact** (ties included) — for node indices that fit the 16-bit `Idx`. -/
theorem C17_pred_exact (nw : Network) (hd : DepotTimes nw) (vt a b : Nat)
    (hidx : (nw.node a).idx ≤ 65535) :
    a ∈ nw.predecessors vt b ↔ InIndex nw vt a ∧ nw.canReach a b = true := by
  unfold predecessors typeNodesSortedByEnd
  simp only [List.mem_filter, List.mem_mergeSort, mem_typeIndex]
  constructor
  · rintro ⟨⟨hi, _⟩, hr⟩; exact ⟨hi, hr⟩
  · rintro ⟨hi, hr⟩
    refine ⟨⟨hi, ?_⟩, hr⟩
    simp [keyLt_largest_false _ _ _ (reach_end_le_start nw hd a b hr) hidx]

/-! ### capacities -/

theorem C17_capacity_le_total (d : Depot) (vt : Nat) : depotCapacityFor d vt ≤ d.total := by
  unfold depotCapacityFor
  split <;> simp [Nat.min_def] <;> split <;> omega

theorem C17_capacity_unlisted (d : Depot) (vt : Nat) (h : assocGet? d.allowed vt = none) :
    depotCapacityFor d vt = 0 := by
  simp [depotCapacityFor, h]

theorem C17_capacity_listed (d : Depot) (vt c : Nat) (h : assocGet? d.allowed vt = some (some c)) :
    depotCapacityFor d vt = Nat.min c d.total := by
  simp [depotCapacityFor, h]

theorem C17_capacity_unlimited (d : Depot) (vt : Nat) (h : assocGet? d.allowed vt = some none) :
    depotCapacityFor d vt = d.total := by
  simp [depotCapacityFor, h]

/-- the formation limit of a trip is the `Option` minimum of the type's and the segment's limit:
    a bound given on either side binds. -/
theorem C02_limit_fn (nw : Network) (trip : Nat) :
    nw.maxFormationFor trip = optMin (nw.vtype (nw.node trip).vt).maxForm (nw.node trip).maxForm := rfl

theorem optMin_le_left (a b : Option Nat) (x : Nat) (h : a = some x) :
    ∃ y, optMin a b = some y ∧ y ≤ x := by
  subst h; cases b <;> simp [optMin, Nat.min_def]; split <;> omega

theorem optMin_le_right (a b : Option Nat) (x : Nat) (h : b = some x) :
    ∃ y, optMin a b = some y ∧ y ≤ x := by
  subst h; cases a <;> simp [optMin, Nat.min_def]; split <;> omega

/-! ### witnesses: the pinned variants falsify the statements (findings F1, F3) -/

/-- two back-to-back trips X→Y 10:00–10:30 and Y→X 10:30–11:00, zero shunting -/
def tieNet : Network :=
  { nodes := #[
      { kind := .startDepot, idx := 0, startT := .earliest, endT := .earliest, startLoc := .station 0, endLoc := .station 0 },
      { kind := .endDepot, idx := 1, startT := .latest, endT := .latest, startLoc := .station 0, endLoc := .station 0 },
      { kind := .service, idx := 2, startT := .point 36000, endT := .point 37800, startLoc := .station 0, endLoc := .station 1 },
      { kind := .service, idx := 3, startT := .point 37800, endT := .point 39600, startLoc := .station 1, endLoc := .station 0 } ],
    vtypes := #[{ capacity := 10, seats := 10, maxForm := none }],
    depots := #[], nLocs := 2, dhDur := [(0, [(0, 0), (1, 0)]), (1, [(0, 0), (1, 0)])],
    dhDist := [(0, [(0, 0), (1, 0)]), (1, [(0, 0), (1, 0)])],
    forbidDH := false, shuntMin := 0, shuntDH := 0, maxDist := 0,
    cStaff := 0, cService := 0, cMaint := 0, cDH := 0, cIdle := 0, planning := 86400 }

/-- F1: with the pinned exclusive bound the tie predecessor is lost although it can reach -/
theorem F1_pinned_predecessors_miss_tie :
    tieNet.canReach 2 3 = true ∧ 2 ∉ tieNet.predecessorsPinned 0 3 ∧ 2 ∈ tieNet.predecessors 0 3 := by
  refine ⟨by decide, ?_, ?_⟩
  · simp only [predecessorsPinned, typeNodesSortedByEnd, List.mem_filter, List.mem_mergeSort,
      mem_typeIndex]
    decide
  · simp only [predecessors, typeNodesSortedByEnd, List.mem_filter, List.mem_mergeSort,
      mem_typeIndex]
    decide

/-- F3: a limit given only on the route segment was ignored by the pinned function -/
theorem F3_pinned_ignores_segment_limit :
    (optMin none (some 1) = some 1) ∧ ((none : Option Nat).map (fun l => Nat.min l ((some 1 : Option Nat).getD l)) = none) := by
  decide

/-! ### non-vacuity: the hypotheses are met by a concrete network -/
theorem tieNet_depotTimes : DepotTimes tieNet := by
  constructor <;> intro i h
  · match i with
    | 0 => rfl
    | 1 => simp [tieNet, Network.node] at h
    | 2 => simp [tieNet, Network.node] at h
    | 3 => simp [tieNet, Network.node] at h
    | n + 4 => simp [tieNet, Network.node]; rfl
  · match i with
    | 0 => simp [tieNet, Network.node] at h
    | 1 => rfl
    | 2 => simp [tieNet, Network.node] at h
    | 3 => simp [tieNet, Network.node] at h
    | n + 4 =>
      have : (tieNet.node (n + 4)) = default := by simp [tieNet, Network.node]
      rw [this] at h; cases h

example : 2 ∈ tieNet.predecessors 0 3 :=
  (C17_pred_exact tieNet tieNet_depotTimes 0 2 3 (by decide)).mpr (by decide)

end RSSched.C17
