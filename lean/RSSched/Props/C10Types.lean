/-
Props/C10Types: the type clause of C10 / C01, for the model, every history: the tour of a real
vehicle holds only service trips of the vehicle's type (besides depots and maintenance slots). Every
node enters a real tour through a type check: `spawn_vehicle_for_path`, `spawn_vehicle_to_replace_dummy_tour`
and `add_path_to_vehicle_tour` test the given path, the two reassignments run
`check_receiver_type_compatibility` (providers of the same type hand over nodes that are compatible by
the invariant; otherwise the sub-path is tested), and the depot modifications only write depot nodes.
-/
import RSSched.Props.C10Limits
namespace RSSched.C10Ty
open RSSched Schedule Network Tour Spec C15 C02 C13 C10T C10L C09C C10S C10F C10D C10Fit C10U

/-- all nodes are compatible with the type -/
def TyOK (nw : Network) (vt : Nat) (nodes : List Nat) : Prop := ∀ n ∈ nodes, nw.compatibleWithType n vt = true

/-- **the type clause** -/
def TypeInv (nw : Network) (s : Schedule) : Prop :=
  ∀ v t vt, assocGet? s.tours v = some t → assocGet? s.vehicles v = some vt → TyOK nw vt t.nodes

theorem tyOK_of_any {nw : Network} {vt : Nat} {path : List Nat}
    (h : ¬ (path.any (fun n => !(nw.compatibleWithType n vt))) = true) : TyOK nw vt path := by
  intro n hn
  cases hc : nw.compatibleWithType n vt with
  | true => rfl
  | false =>
    exfalso; apply h
    exact List.any_eq_true.mpr ⟨n, hn, by simp [hc]⟩

theorem compat_of_not_service {nw : Network} {n vt : Nat} (h : (nw.node n).isService = false) :
    nw.compatibleWithType n vt = true := by
  unfold Network.compatibleWithType; simp [h]

theorem not_service_of_startDepot {nw : Network} {n : Nat} (h : (nw.node n).isStartDepot = true) :
    (nw.node n).isService = false := by
  unfold Node.isStartDepot at h
  unfold Node.isService
  cases hk : (nw.node n).kind <;> simp [hk] at h ⊢

theorem not_service_of_endDepot {nw : Network} {n : Nat} (h : (nw.node n).isEndDepot = true) :
    (nw.node n).isService = false := by
  unfold Node.isEndDepot at h
  unfold Node.isService
  cases hk : (nw.node n).kind <;> simp [hk] at h ⊢

theorem tyOK_sub {nw : Network} {vt : Nat} {l l' : List Nat} (h : TyOK nw vt l') (hs : ∀ n ∈ l, n ∈ l') :
    TyOK nw vt l := fun n hn => h n (hs n hn)

theorem tyOK_set {nw : Network} {vt : Nat} {l : List Nat} {i d : Nat} (h : TyOK nw vt l)
    (hd : (nw.node d).isService = false) : TyOK nw vt (l.set i d) := by
  intro n hn
  rcases List.mem_or_eq_of_mem_set hn with h1 | h1
  · exact h n h1
  · rw [h1]; exact compat_of_not_service hd

/-! ### tours -/

theorem remove_sub {nw : Network} {t : Tour} {a b : Nat} {ot : Option Tour} {path : List Nat}
    (h : Tour.remove nw t a b = .ok (ot, path)) :
    (∀ t', ot = some t' → ∀ n ∈ t'.nodes, n ∈ t.nodes) ∧ (∀ n ∈ path, n ∈ t.nodes) := by
  obtain ⟨s, e, _, _, hsp, hsome, _⟩ := remove_split h
  constructor
  · intro t' ht' n hn
    rw [hsome t' ht'] at hn
    rcases List.mem_append.mp hn with h1 | h1
    · exact List.mem_of_mem_take h1
    · exact List.mem_of_mem_drop h1
  · intro n hn
    rw [hsp]; simp [hn]

theorem insert_sub (nw : Network) (hd : C17.DepotTimes nw) (hw : NodesWF' nw) (t t' : Tour) (path : List Nat)
    (rm : Option (List Nat)) (ht : TourOK nw t) (h : insertPath nw true t path = .ok (t', rm)) :
    ∀ n ∈ t'.nodes, n ∈ t.nodes ∨ n ∈ path := by
  have hc := C12.timeChain_of_chainB nw hd t.nodes ht.chain
  have hne : 0 < t.nodes.length := by have := shape_len ht.shape; omega
  unfold insertPath at h
  obtain ⟨pl, hpl, h⟩ := C12.bind_ok h
  obtain ⟨c, _, h⟩ := C12.bind_ok h
  simp only [pure, Except.pure, Except.ok.injEq, Prod.mk.injEq] at h
  obtain ⟨ht', _⟩ := h
  obtain ⟨_, h2, _⟩ := C12.plan_inv nw hd hw t path hc hne pl hpl
  rw [ht.real] at h2
  have hnodes : t'.nodes = (insertRef nw false t.nodes path).1 := by rw [← ht']; exact h2
  intro n hn
  rw [hnodes] at hn
  unfold insertRef stripForDummy at hn
  simp only [Bool.not_false, ↓reduceIte] at hn
  rcases List.mem_append.mp hn with h1 | h1
  · rcases List.mem_append.mp h1 with h3 | h3
    · exact Or.inl (List.mem_of_mem_take h3)
    · exact Or.inr h3
  · exact Or.inl (List.mem_of_mem_drop h1)

theorem replaceStart_tyOK {nw : Network} {t nt : Tour} {d vt : Nat} (h : t.replaceStartDepot nw d = .ok nt)
    (ht : TyOK nw vt t.nodes) : TyOK nw vt nt.nodes := by
  unfold Tour.replaceStartDepot at h
  inv_do h
  all_goals (try contradiction)
  all_goals (try (cases h))
  all_goals (try (simp only [pure, Except.pure, Except.ok.injEq] at *))
  all_goals (try subst_vars)
  all_goals (
    have hsd : (nw.node d).isStartDepot = true := by
      have hneg : ¬ (!(nw.node d).isStartDepot) = true := by assumption
      simpa using hneg
    exact tyOK_set ht (not_service_of_startDepot hsd))

theorem replaceEnd_tyOK {nw : Network} {t nt : Tour} {d vt : Nat} (h : t.replaceEndDepot nw d = .ok nt)
    (ht : TyOK nw vt t.nodes) : TyOK nw vt nt.nodes := by
  unfold Tour.replaceEndDepot at h
  inv_do h
  all_goals (try contradiction)
  all_goals (try (cases h))
  all_goals (try (simp only [pure, Except.pure, Except.ok.injEq] at *))
  all_goals (try subst_vars)
  all_goals (
    have hsd : (nw.node d).isEndDepot = true := by
      have hneg : ¬ (!(nw.node d).isEndDepot) = true := by assumption
      simpa using hneg
    exact tyOK_set ht (not_service_of_endDepot hsd))

/-- a tour `Tour::new` accepts, built from a type-checked path by adding depots -/
theorem new_tyOK {nw : Network} {s : Schedule} {vt : Nat} {path nodes : List Nat} {t : Tour}
    (hp : TyOK nw vt path) (hd : addSuitableDepots nw s vt path = .ok nodes) (hn : Tour.new nw nodes = .ok t) :
    TyOK nw vt t.nodes := by
  obtain ⟨hnodes, hlen⟩ := C10Lim.new_nodes hn
  rw [hnodes]
  -- first and last node of an accepted tour are depots
  have hends : (∀ f, nodes[0]? = some f → (nw.node f).isService = false) ∧
      (∀ l, nodes[nodes.length - 1]? = some l → (nw.node l).isService = false) := by
    unfold Tour.new at hn
    obtain ⟨b, hb, hn⟩ := bind_ok hn
    split at hn
    · cases hn
    · rename_i hne
      unfold newErrors at hb
      obtain ⟨f, hf, hb⟩ := bind_ok hb
      obtain ⟨l, hl, hb⟩ := bind_ok hb
      simp only [pure, Except.pure, Except.ok.injEq] at hb
      subst hb
      simp only [Bool.or_eq_true, not_or, Bool.not_eq_true', Bool.not_eq_false, Bool.not_eq_true] at hne
      have hf' := C10Fit.idxAt_ok hf
      have hl' := C10Fit.idxAt_ok hl
      obtain ⟨⟨⟨⟨h1, h2⟩, _⟩, _⟩, _⟩ := hne
      constructor
      · intro f0 hf0; rw [hf'] at hf0; cases hf0
        exact not_service_of_startDepot (by simpa using h1)
      · intro l0 hl0; rw [hl'] at hl0; cases hl0
        exact not_service_of_endDepot (by simpa using h2)
  -- every other node comes from the path
  have hinner : ∀ (i : Nat) (n : Nat), nodes[i]? = some n → i = 0 ∨ i = nodes.length - 1 ∨ n ∈ path := by
    unfold addSuitableDepots at hd
    obtain ⟨first, hfirst, hd⟩ := bind_ok hd
    obtain ⟨last, hlast, hd⟩ := bind_ok hd
    intro i n hi
    split at hd
    · dsimp only at hd
      split at hd
      · simp only [pure, Except.pure, Except.ok.injEq] at hd
        subst hd
        simp only [List.length_set] at hi ⊢
        by_cases e0 : i = 0
        · exact Or.inl e0
        · by_cases e1 : i = path.length - 1
          · exact Or.inr (Or.inl e1)
          · rw [List.getElem?_set_ne (fun e => e1 e.symm), List.getElem?_set_ne (fun e => e0 e.symm)] at hi
            exact Or.inr (Or.inr (List.mem_of_getElem? hi))
      · simp only [pure, Except.pure, Except.ok.injEq] at hd
        subst hd
        by_cases e0 : i = 0
        · exact Or.inl e0
        · simp only [List.length_append, List.length_set, List.length_cons, List.length_nil] at hi ⊢
          by_cases e1 : i < path.length
          · rw [List.getElem?_append_left (by simpa using e1), List.getElem?_set_ne (fun e => e0 e.symm)] at hi
            exact Or.inr (Or.inr (List.mem_of_getElem? hi))
          · have hlt := (List.getElem?_eq_some_iff.mp hi).1
            simp only [List.length_append, List.length_set, List.length_cons, List.length_nil] at hlt
            exact Or.inr (Or.inl (by omega))
    · by_cases hdep : (nw.node first).isDepot = true
      · simp only [hdep, Bool.not_true, Bool.false_eq_true, ↓reduceIte, pure, Except.pure, bind, Except.bind] at hd
        split at hd
        · obtain ⟨d, _, hd⟩ := bind_ok hd
          simp only [pure, Except.pure, Except.ok.injEq] at hd
          subst hd
          by_cases e1 : i < path.length
          · rw [List.getElem?_append_left e1] at hi
            exact Or.inr (Or.inr (List.mem_of_getElem? hi))
          · have hlt := (List.getElem?_eq_some_iff.mp hi).1
            simp only [List.length_append, List.length_cons, List.length_nil] at hlt ⊢
            exact Or.inr (Or.inl (by omega))
        · simp only [Except.ok.injEq] at hd
          subst hd
          exact Or.inr (Or.inr (List.mem_of_getElem? hi))
      · simp only [hdep, Bool.not_false, ↓reduceIte, bind, Except.bind] at hd
        cases hfb : findBestStartDepot nw s.depotUsage vt first with
        | error e => simp only [hfb] at hd; cases hd
        | ok d =>
          simp only [hfb, pure, Except.pure] at hd
          split at hd
          · obtain ⟨e, _, hd⟩ := bind_ok hd
            simp only [pure, Except.pure, Except.ok.injEq] at hd
            subst hd
            cases i with
            | zero => exact Or.inl rfl
            | succ j =>
              simp only [List.cons_append, List.getElem?_cons_succ, List.length_cons, List.length_append,
                List.length_nil] at hi ⊢
              by_cases e1 : j < path.length
              · rw [List.getElem?_append_left e1] at hi
                exact Or.inr (Or.inr (List.mem_of_getElem? hi))
              · have hlt := (List.getElem?_eq_some_iff.mp hi).1
                simp only [List.length_append, List.length_cons, List.length_nil] at hlt
                exact Or.inr (Or.inl (by omega))
          · simp only [Except.ok.injEq] at hd
            subst hd
            cases i with
            | zero => exact Or.inl rfl
            | succ j =>
              simp only [List.getElem?_cons_succ] at hi
              exact Or.inr (Or.inr (List.mem_of_getElem? hi))
  intro n hn
  obtain ⟨i, hi⟩ := List.mem_iff_getElem?.mp hn
  rcases hinner i n hi with e | e | e
  · subst e; exact compat_of_not_service (hends.1 n hi)
  · subst e; exact compat_of_not_service (hends.2 n hi)
  · exact hp n e

/-! ### the type check of the reassignments -/

theorem compat_ty {nw : Network} {s : Schedule} {p r : Veh} {a b : Nat} {c : Bool} {rvt : Nat} {pt : Tour}
    (h : checkReceiverTypeCompat nw s p r a b = .ok c) (hc : ¬ (!c) = true)
    (hr : s.typeOf? r = some rvt) (hpt : s.tourOf? p = some pt) :
    s.typeOf? p = some rvt ∨ ∃ path0, Tour.subPath nw pt a b = .ok path0 ∧ TyOK nw rvt path0 := by
  have hct : c = true := by simpa using hc
  subst hct
  by_cases hsame : s.typeOf? p = some rvt
  · exact Or.inl hsame
  · right
    unfold checkReceiverTypeCompat at h
    rw [hr] at h
    dsimp only at h
    have hf : (s.typeOf? p == some rvt) = false := by simpa using hsame
    rw [hf] at h
    simp only [Bool.false_eq_true, ↓reduceIte] at h
    obtain ⟨pt', hpt', h⟩ := bind_ok h
    have := unwrapO_ok hpt'
    rw [hpt] at this; cases this
    cases hsub : Tour.subPath nw pt a b with
    | error e =>
      rw [hsub] at h
      cases e <;> simp [bind, Except.bind] at h
    | ok path0 =>
      rw [hsub] at h
      simp only [pure_bind] at h
      refine ⟨path0, rfl, ?_⟩
      by_cases hany : (path0.any fun n => !nw.compatibleWithType n rvt) = true
      · rw [if_pos hany] at h
        simp only [pure, Except.pure, Except.ok.injEq] at h
        cases h
      · exact tyOK_of_any hany

theorem remove_eq_subPath {nw : Network} {t : Tour} {a b : Nat} {ot : Option Tour} {path path0 : List Nat}
    (hrem : Tour.remove nw t a b = .ok (ot, path)) (hsub : Tour.subPath nw t a b = .ok path0) : path = path0 := by
  obtain ⟨s, e, hs, he, _, _, hpath, _⟩ := remove_positions hrem
  obtain ⟨s0, e0, _, _, hpath0, hs0, he0⟩ := subPath_sublist hsub
  rw [hs] at hs0; rw [he] at he0
  cases hs0; cases he0
  rw [hpath, hpath0]

/-! ### the loop of `fit_path_into_tour`, for a real receiver -/

theorem fit_nodes {nw : Network} (hn : NetHyp nw) {chk real : Bool} {P : Tour → Prop} (hP : ProvPred nw real P)
    (hor : real = true ∨ chk = true) {pt rt : Tour} {path0 moved : List Nat} {fuel : Nat}
    {newProv : Option Tour} {newRecv : Tour} (hpt : P pt) (hrt : TourOK nw rt)
    (hcontig : Contig (some pt) (some path0))
    (hloop : fitLoop nw chk fuel (some pt) rt (some path0) [] = .ok (newProv, newRecv, moved)) :
    (∀ t, newProv = some t → ∀ n ∈ t.nodes, n ∈ pt.nodes) ∧
    (∀ n ∈ newRecv.nodes, n ∈ rt.nodes ∨ n ∈ path0) := by
  obtain ⟨_, g1, _, _, _, g5⟩ := C10Lim.fitLoop_rule nw chk
    (fun prov recv rem => (∀ pc, prov = some pc → P pc ∧ ∀ n ∈ pc.nodes, n ∈ pt.nodes) ∧ Contig prov rem ∧
      (∀ pa, rem = some pa → ∃ k, pa = path0.drop k) ∧ TourOK nw recv ∧
      (∀ n ∈ recv.nodes, n ∈ rt.nodes ∨ n ∈ path0))
    (fun prov recv path k hI => by
      obtain ⟨i1, i2, i3, i4, i5⟩ := hI
      refine ⟨i1, ?_, fun pa hpa => ?_, i4, i5⟩
      · intro p' pc' hp' hpc'
        have := pathTrusted_some hp'
        subst this
        obtain ⟨A, B, hAB⟩ := i2 path pc' rfl hpc'
        refine ⟨A ++ path.take (k + 1), B, ?_⟩
        rw [hAB]
        conv => lhs; rw [← List.take_append_drop (k + 1) path]
        simp only [List.append_assoc]
      · obtain ⟨k0, hk0⟩ := i3 path rfl
        exact C10Lim.drop_of_trusted hk0 hpa)
    (fun pc r0 path endPos start segEnd provCand pathIns r' rm hI hstart hend hrem hck _ hins => by
      obtain ⟨i1, i2, i3, i4, i5⟩ := hI
      obtain ⟨hPpc, hpcsub⟩ := i1 pc rfl
      obtain ⟨A, B, hAB⟩ := i2 path pc rfl rfl
      obtain ⟨hpi, hcand⟩ := remove_contig (hP.nodup pc hPpc) hAB hstart hend hrem
      have hfacts := hP.facts pc start segEnd provCand pathIns hPpc hrem
      have hpok := pathOK_of_facts hfacts hck hor
      have hr' := insert_tourOK nw hn.dt hn.wf r0 r' pathIns rm i4 hpok hins
      obtain ⟨k0, hk0⟩ := i3 path rfl
      refine ⟨fun t' ht' => ?_, ?_, fun pa hpa => C10Lim.drop_of_trusted hk0 hpa, hr', fun n hn' => ?_⟩
      · subst ht'
        exact ⟨hP.rem pc start segEnd t' pathIns hPpc hrem,
          fun n hn' => hpcsub n ((remove_sub hrem).1 t' rfl n hn')⟩
      · intro p' t' hp'' ht'
        have := pathTrusted_some hp''
        subst this
        exact ⟨A, B, hcand t' ht'⟩
      · rcases insert_sub nw hn.dt hn.wf r0 r' pathIns rm i4 hins n hn' with h1 | h1
        · exact i5 n h1
        · right
          rw [hpi] at h1
          have := List.mem_of_mem_take h1
          rw [hk0] at this
          exact List.mem_of_mem_drop this)
    _ _ _ _ _ _ _ _ hloop
    ⟨fun pc e => by cases e; exact ⟨hpt, fun _ h => h⟩, hcontig, fun pa e => by cases e; exact ⟨0, rfl⟩, hrt,
      fun n hn' => Or.inl hn'⟩
  exact ⟨fun t ht => (g1 t ht).2, g5⟩

/-! ### the public modifications -/

/-- everything but one vehicle's entries unchanged -/
theorem ty_update_one {nw : Network} {s : Schedule} {V' : List (Veh × Nat)} {T' : Tours} {v : Veh}
    (hinv : TypeInv nw s) (hV : ∀ w, w ≠ v → assocGet? V' w = assocGet? s.vehicles w)
    (hT : ∀ w, w ≠ v → assocGet? T' w = assocGet? s.tours w)
    (hv : ∀ t vt, assocGet? T' v = some t → assocGet? V' v = some vt → TyOK nw vt t.nodes) :
    ∀ w t vt, assocGet? T' w = some t → assocGet? V' w = some vt → TyOK nw vt t.nodes := by
  intro w t vt ht hvt
  by_cases e : w = v
  · subst e; exact hv t vt ht hvt
  · rw [hT w e] at ht; rw [hV w e] at hvt; exact hinv w t vt ht hvt

theorem spawn_ty {nw : Network} {s s' : Schedule} {vt : Nat} {path : List Nat} {v : Veh}
    (hinv : TypeInv nw s) (h : spawnVehicleForPath nw s vt path = .ok (s', v)) : TypeInv nw s' := by
  unfold spawnVehicleForPath at h
  inv_do h
  all_goals (try contradiction)
  all_goals (try (cases h))
  all_goals (try (simp only [pure, Except.pure, Except.ok.injEq] at *))
  all_goals (try subst_vars)
  all_goals (
    refine ty_update_one (v := Veh.real s.counter) hinv (fun w hw => get_set_ne _ _ _ _ hw)
      (fun w hw => get_set_ne _ _ _ _ hw) (fun t vt' ht hvt' => ?_)
    have ht' : assocGet? (assocSet s.tours (Veh.real s.counter) _) (Veh.real s.counter) = some t := ht
    have hvt'' : assocGet? (assocSet s.vehicles (Veh.real s.counter) vt) (Veh.real s.counter) = some vt' := hvt'
    rw [assocGet?_assocSet] at ht' hvt''
    simp only [↓reduceIte, Option.some.injEq] at ht' hvt''
    subst ht'; subst hvt''
    exact new_tyOK (tyOK_of_any (by assumption)) (by assumption) (by assumption))

theorem delete_ty {nw : Network} {s s' : Schedule} {v : Veh}
    (hinv : TypeInv nw s) (h : replaceVehicleByDummy nw s v = .ok s') : TypeInv nw s' := by
  unfold replaceVehicleByDummy at h
  inv_do h
  all_goals (try contradiction)
  all_goals (try (cases h))
  all_goals (try (simp only [pure, Except.pure, Except.ok.injEq] at *))
  all_goals (try subst_vars)
  all_goals (
    refine ty_update_one (v := v) hinv (fun w hw => get_erase_ne _ _ _ hw)
      (fun w hw => get_erase_ne _ _ _ hw) (fun t vt' _ hvt' => ?_)
    have hvt'' : assocGet? (assocErase s.vehicles v) v = some vt' := hvt'
    rw [assocGet?_assocErase] at hvt''; simp at hvt'')

theorem addPath_check {nw : Network} {s s' : Schedule} {v : Veh} {path : List Nat} {rm : Option (List Nat)}
    (h : addPathToVehicleTour nw s v path = .ok (s', rm)) :
    ∀ vt, s.typeOf? v = some vt → TyOK nw vt path := by
  intro vt hvt
  by_cases hany : (path.any fun n => !nw.compatibleWithType n vt) = true
  · exfalso
    unfold addPathToVehicleTour at h
    rw [hvt] at h
    simp only [hany, ↓reduceIte, bind, Except.bind] at h
    cases h
  · exact tyOK_of_any hany

theorem addPath_ty {nw : Network} (hn : NetHyp nw) {s s' : Schedule} {v : Veh} {path : List Nat}
    {rm : Option (List Nat)} (ho : ToursOK nw s.tours) (hinv : TypeInv nw s)
    (h : addPathToVehicleTour nw s v path = .ok (s', rm)) : TypeInv nw s' := by
  have hchk := addPath_check h
  obtain ⟨old, newTour, removed, hV, hT, hold, hins⟩ := C10Lim.addPath_frame h
  unfold TypeInv
  rw [hV, hT]
  refine ty_update_one (v := v) hinv (fun w _ => rfl) (fun w hw => get_set_ne _ _ _ _ hw) (fun t vt ht hvt => ?_)
  rw [assocGet?_assocSet] at ht
  simp only [↓reduceIte, Option.some.injEq] at ht
  subst ht
  intro n hn'
  rcases insert_sub nw hn.dt hn.wf old _ path removed (ho v old hold) hins n hn' with h1 | h1
  · exact hinv v old vt hold hvt n h1
  · exact hchk vt hvt n h1

theorem rmSeg_ty {nw : Network} {s s' : Schedule} {v : Veh} {a b : Nat}
    (hi : ListInv s) (hd : DummyInv s) (hinv : TypeInv nw s)
    (h : removeSegment nw s v a b = .ok s') : TypeInv nw s' := by
  unfold removeSegment at h
  inv_do h
  all_goals (try contradiction)
  all_goals (try (cases h))
  all_goals (first
    | exact delete_ty hinv (by assumption)
    | (simp only [pure, Except.pure, Except.ok.injEq] at *
       subst_vars
       have hv' : s.isVehicle v = true := by simpa using (by assumption : ¬ (!s.isVehicle v) = true)
       have hnd := vehicle_not_dummy hi hd hv'
       have hutc := utc_tours (by assumption : updateTourAndCosts s s.tours _ _ v _ = .ok _)
       simp only [hnd, Bool.false_eq_true, ↓reduceIte] at hutc
       have htour := unwrapO_ok (by assumption : unwrapO (s.tourOf? v) _ = .ok _)
       rw [(tourOf_vehicle hi hv').1] at htour
       have hsub := (remove_sub (by assumption : Tour.remove nw _ a b = .ok (some _, _))).1 _ rfl
       refine ty_update_one (v := v) hinv (fun w _ => rfl) ?_ (fun t vt ht hvt => ?_)
       · intro w hw
         show assocGet? _ w = assocGet? s.tours w
         rw [hutc]; exact get_set_ne _ _ _ _ hw
       · have ht' : assocGet? _ v = some t := ht
         rw [hutc, assocGet?_assocSet] at ht'
         simp only [↓reduceIte, Option.some.injEq] at ht'
         subst ht'
         exact tyOK_sub (hinv v _ vt htour hvt) hsub))

theorem provVehicles_sub (s : Schedule) (p : Veh) (np : Option Tour) (w : Veh) (vt : Nat)
    (h : assocGet? (C10Lim.provVehicles s p np) w = some vt) : assocGet? s.vehicles w = some vt := by
  unfold C10Lim.provVehicles at h
  cases np with
  | some t => exact h
  | none =>
    dsimp only at h
    split at h
    · exact h
    · split at h
      · rw [assocGet?_assocErase] at h
        by_cases e : w = p
        · simp [e] at h
        · simpa [e] using h
      · exact h

/-- the leaf of the two reassignments: given the node facts and the type check -/
theorem reassign_ty {nw : Network} {s : Schedule} {w' : Work} {p r : Veh} {newProv : Option Tour}
    {newRecv : Tour} {moved path0 : List Nat} {pt rt : Tour} {c : Bool} {a b : Nat}
    (hi : ListInv s) (hd : DummyInv s) (hinv : TypeInv nw s) (hne : p ≠ r)
    (hpt : s.tourOf? p = some pt) (hrt : s.tourOf? r = some rt)
    (hcompat : checkReceiverTypeCompat nw s p r a b = .ok c) (hc : ¬ (!c) = true)
    (hsubp : ∀ path0', Tour.subPath nw pt a b = .ok path0' → path0' = path0)
    (hprov : s.isDummy p = false → ∀ t, newProv = some t → ∀ n ∈ t.nodes, n ∈ pt.nodes)
    (hrecv : s.isVehicle r = true → ∀ n ∈ newRecv.nodes, n ∈ rt.nodes ∨ n ∈ path0)
    (hpath : s.isDummy p = false → ∀ n ∈ path0, n ∈ pt.nodes)
    (hut : updateTours nw s (Work.ofSchedule s) (some p) newProv r newRecv moved = .ok w') :
    ∀ w t vt, assocGet? w'.tours w = some t → assocGet? w'.vehicles w = some vt → TyOK nw vt t.nodes := by
  have hT := (updateTours_spec hut).1
  have hV := C10Lim.updateTours_vehicles hut
  have hrp : r ≠ p := fun e => hne e.symm
  intro w t vt ht hvt
  rw [hV] at hvt
  rw [hT] at ht
  have hvt0 := provVehicles_sub s p newProv w vt hvt
  by_cases ewr : w = r
  · subst ewr
    by_cases hrd : s.isDummy w = true
    · have := dummy_not_vehicle hi hd hrd
      unfold Schedule.isVehicle at this; rw [hvt0] at this; cases this
    · have hrd' : s.isDummy w = false := by simpa using hrd
      have hrtget := tourOf_not_dummy hrt hrd'
      have hrv := isVehicle_of_tour hi hrtget
      simp only [hrd', Bool.false_eq_true, ↓reduceIte] at ht
      rw [assocGet?_assocSet] at ht
      simp only [↓reduceIte, Option.some.injEq] at ht
      subst ht
      have hold := hinv w rt vt hrtget hvt0
      intro n hn
      rcases hrecv hrv n hn with h1 | h1
      · exact hold n h1
      · rcases compat_ty hcompat hc (show s.typeOf? w = some vt from hvt0) hpt with hs | ⟨p0, hp0, hty⟩
        · -- the provider is a real vehicle of the same type
          have hpd : s.isDummy p = false := by
            cases hpd : s.isDummy p with
            | false => rfl
            | true =>
              have := dummy_not_vehicle hi hd hpd
              unfold Schedule.isVehicle at this
              rw [show assocGet? s.vehicles p = some vt from hs] at this; cases this
          exact hinv p pt vt (tourOf_not_dummy hpt hpd) hs n (hpath hpd n h1)
        · rw [hsubp p0 hp0] at hty
          exact hty n h1
  · have ht' : assocGet? (C10F.provTours s p newProv) w = some t := by
      split at ht
      · exact ht
      · rw [get_set_ne _ _ _ _ ewr] at ht; exact ht
    by_cases ewp : w = p
    · subst ewp
      by_cases hpd : s.isDummy w = true
      · have := dummy_not_vehicle hi hd hpd
        unfold Schedule.isVehicle at this; rw [hvt0] at this; cases this
      · have hpd' : s.isDummy w = false := by simpa using hpd
        have hptget := tourOf_not_dummy hpt hpd'
        unfold C10F.provTours at ht'
        simp only [hpd', Bool.false_eq_true, ↓reduceIte] at ht'
        cases newProv with
        | some t0 =>
          dsimp only at ht'
          rw [assocGet?_assocSet] at ht'
          simp only [↓reduceIte, Option.some.injEq] at ht'
          rw [← ht']
          exact tyOK_sub (hinv w pt vt hptget hvt0) (hprov hpd' t0 rfl)
        | none =>
          dsimp only at ht'
          have hpv := isVehicle_of_tour hi hptget
          simp only [hpv, ↓reduceIte] at ht'
          rw [assocGet?_assocErase] at ht'; simp at ht'
    · rw [C10Lim.provTours_ne s p newProv w ewp] at ht'
      exact hinv w t vt ht' hvt0

theorem subPath_contig {nw : Network} {pt : Tour} {a b : Nat} {path : List Nat}
    (hsub : Tour.subPath nw pt a b = .ok path) :
    Contig (some pt) (some path) ∧ ∀ n ∈ path, n ∈ pt.nodes := by
  obtain ⟨s0, e0, h1, h2, hpath, _, _⟩ := subPath_sublist hsub
  constructor
  · intro path' pc' e1 e2
    cases e1; cases e2
    exact ⟨pt.nodes.take s0, pt.nodes.drop (e0 + 1), by rw [hpath]; exact take_drop_split pt.nodes s0 (e0 + 1) h1⟩
  · intro n hn
    rw [hpath] at hn
    exact List.mem_of_mem_drop (List.mem_of_mem_take hn)

theorem fit_ty_leaf {nw : Network} (hn : NetHyp nw) {s : Schedule} {p r : Veh} {a b : Nat} {pt rt : Tour}
    {path : List Nat} {res : Option Tour × Tour × List Nat} {w : Work} {site1 site2 : String} {c : Bool}
    (hi : ListInv s) (hd : DummyInv s) (ho : ToursOK nw s.tours) (hdo : DummiesOK nw s.dummyTours)
    (hinv : TypeInv nw s) (hne : p ≠ r)
    (hcompat : checkReceiverTypeCompat nw s p r a b = .ok c) (hc : ¬ (!c) = true)
    (hpt' : unwrapO (s.tourOf? p) site1 = .ok pt) (hrt' : unwrapO (s.tourOf? r) site2 = .ok rt)
    (hsub : Tour.subPath nw pt a b = .ok path)
    (hloop : fitLoop nw (s.isDummy p && s.isVehicle r) (path.length + 1) (some pt) rt (some path) [] = .ok res)
    (hut : updateTours nw s (Work.ofSchedule s) (some p) res.1 r res.2.1 res.2.2 = .ok w) :
    ∀ x t vt, assocGet? w.tours x = some t → assocGet? w.vehicles x = some vt → TyOK nw vt t.nodes := by
  have hpt := unwrapO_ok hpt'
  have hrt := unwrapO_ok hrt'
  obtain ⟨hcontig, hpathsub⟩ := subPath_contig hsub
  obtain ⟨np, nr, mv⟩ := res
  refine reassign_ty (path0 := path) hi hd hinv hne hpt hrt hcompat hc
    (fun p0 h0 => by rw [hsub] at h0; exact (Except.ok.inj h0).symm) ?_ ?_ (fun _ => hpathsub) hut
  · intro hpd t ht
    have hptok := ho p pt (tourOf_not_dummy hpt hpd)
    by_cases hrv : s.isVehicle r = true
    · have hrnd := vehicle_not_dummy hi hd hrv
      have hrtok := ho r rt (tourOf_not_dummy hrt hrnd)
      exact (fit_nodes hn (provPred_real hn) (Or.inl rfl) hptok hrtok hcontig hloop).1 t ht
    · -- dummy receiver: the provider's rest is a rest of its tour
      have hrd : s.isDummy r = true := by
        cases hrd : s.isDummy r with
        | true => rfl
        | false => exact absurd (isVehicle_of_tour hi (tourOf_not_dummy hrt hrd)) hrv
      have hrtd := hdo r rt (tourOf_dummy hi hd hrt hrd)
      have hP : ProvPred nw true (fun t => TourOK nw t ∧ ∀ n ∈ t.nodes, n ∈ pt.nodes) :=
        { nodup := fun t ht => (provPred_real hn).nodup t ht.1
          rem := fun t a b t' path ht h =>
            ⟨(provPred_real hn).rem t a b t' path ht.1 h, fun n hn' => ht.2 n ((remove_sub h).1 t' rfl n hn')⟩
          facts := fun t a b ot path ht h => (provPred_real hn).facts t a b ot path ht.1 h
          noneOcc := fun t a b path ht h => (provPred_real hn).noneOcc t a b path ht.1 h }
      obtain ⟨r1, _, _⟩ := fitLoop_inv nw _ true _ (QDummy nw) hP
        (qDummy_step hn) _ _ _ _ _ _ _ _ hloop
        (fun pc e => by cases e; exact ⟨hptok, fun _ h => h⟩) hcontig hrtd
      exact (r1 t ht).2
  · intro hrv
    have hrnd := vehicle_not_dummy hi hd hrv
    have hrtok := ho r rt (tourOf_not_dummy hrt hrnd)
    by_cases hpd : s.isDummy p = true
    · have hptd := hdo p pt (tourOf_dummy hi hd hpt hpd)
      have hchk : (s.isDummy p && s.isVehicle r) = true := by simp [hpd, hrv]
      rw [hchk] at hloop
      exact (fit_nodes hn (provPred_dummy hn) (Or.inr rfl) hptd hrtok hcontig hloop).2
    · have hpd' : s.isDummy p = false := by simpa using hpd
      have hptok := ho p pt (tourOf_not_dummy hpt hpd')
      exact (fit_nodes hn (provPred_real hn) (Or.inl rfl) hptok hrtok hcontig hloop).2

theorem fit_ty {nw : Network} (hn : NetHyp nw) {s s' : Schedule} {p r : Veh} {a b : Nat}
    (hi : ListInv s) (hd : DummyInv s) (ho : ToursOK nw s.tours) (hdo : DummiesOK nw s.dummyTours)
    (hinv : TypeInv nw s) (hne : p ≠ r) (h : fitReassign nw s p r a b = .ok s') : TypeInv nw s' := by
  unfold fitReassign at h
  inv_do h
  all_goals (try contradiction)
  all_goals (try (cases h))
  all_goals (try (simp only [pure, Except.pure, Except.ok.injEq] at *))
  all_goals (try subst_vars)
  all_goals (
    exact fit_ty_leaf hn hi hd ho hdo hinv hne (by assumption) (by assumption) (by assumption)
      (by assumption) (by assumption) (by assumption) (by assumption))

theorem override_ty_leaf {nw : Network} (hn : NetHyp nw) {s : Schedule} {p r : Veh} {a b : Nat} {pt rt : Tour}
    {shrunk : Option Tour} {path : List Nat} {ins : Tour × Option (List Nat)} {w : Work} {site1 site2 : String}
    {c : Bool}
    (hi : ListInv s) (hd : DummyInv s) (ho : ToursOK nw s.tours)
    (hinv : TypeInv nw s) (hne : p ≠ r)
    (hcompat : checkReceiverTypeCompat nw s p r a b = .ok c) (hc : ¬ (!c) = true)
    (hpt' : unwrapO (s.tourOf? p) site1 = .ok pt) (hrt' : unwrapO (s.tourOf? r) site2 = .ok rt)
    (hrem : Tour.remove nw pt a b = .ok (shrunk, path))
    (hins : insertPath nw true rt path = .ok ins)
    (hut : updateTours nw s (Work.ofSchedule s) (some p) shrunk r ins.1 path = .ok w) :
    ∀ x t vt, assocGet? w.tours x = some t → assocGet? w.vehicles x = some vt → TyOK nw vt t.nodes := by
  have hpt := unwrapO_ok hpt'
  have hrt := unwrapO_ok hrt'
  obtain ⟨hs1, hs2⟩ := remove_sub hrem
  refine reassign_ty (path0 := path) hi hd hinv hne hpt hrt hcompat hc
    (fun p0 h0 => (remove_eq_subPath hrem h0).symm) (fun _ t ht => hs1 t ht) ?_ (fun _ => hs2) hut
  intro hrv
  have hrnd := vehicle_not_dummy hi hd hrv
  have hrtok := ho r rt (tourOf_not_dummy hrt hrnd)
  exact insert_sub nw hn.dt hn.wf rt ins.1 path ins.2 hrtok hins

theorem override_ty {nw : Network} (hn : NetHyp nw) {s s' : Schedule} {p r : Veh} {a b : Nat} {d : Option Veh}
    (hi : ListInv s) (hd : DummyInv s) (ho : ToursOK nw s.tours)
    (hinv : TypeInv nw s) (hne : p ≠ r) (h : overrideReassign nw s p r a b = .ok (s', d)) : TypeInv nw s' := by
  unfold overrideReassign at h
  inv_do h
  all_goals (try contradiction)
  all_goals (try (cases h))
  all_goals (try (simp only [pure, Except.pure, Except.ok.injEq] at *))
  all_goals (try subst_vars)
  all_goals (
    try dsimp only [TypeInv]
    exact override_ty_leaf hn hi hd ho hinv hne (by assumption) (by assumption) (by assumption)
      (by assumption) (by assumption) (by assumption) (by assumption))

theorem dummySpawn_ty {nw : Network} {s s' : Schedule} {d : Veh} {vt : Nat} {v : Veh}
    (hinv : TypeInv nw s) (h : spawnToReplaceDummy nw s d vt = .ok (s', v)) : TypeInv nw s' := by
  unfold spawnToReplaceDummy at h
  inv_do h
  all_goals (try contradiction)
  all_goals (try (cases h))
  all_goals (
    rename_i s1 hdel
    have hcore := deleteDummy_core hdel
    have hV : s1.vehicles = s.vehicles := congrArg Core.vehicles hcore
    have hT : s1.tours = s.tours := congrArg Core.tours hcore
    refine spawn_ty ?_ h
    unfold TypeInv; rw [hV, hT]; exact hinv)

/-! ### the folds over all vehicles: only depot nodes are written -/

/-- per vehicle: the new tour is compatible with every type the old one was compatible with -/
def TySame (nw : Network) (T0 T : Tours) : Prop :=
  ∀ w t', assocGet? T w = some t' → ∃ t, assocGet? T0 w = some t ∧ ∀ vt, TyOK nw vt t.nodes → TyOK nw vt t'.nodes

theorem fold_ty (nw : Network) (s : Schedule) (F : Acc → Veh → R Acc)
    (hF : ∀ acc v acc', F acc v = .ok acc' →
      ∃ nt t, acc'.1 = assocSet acc.1 v nt ∧ s.tourOf? v = some t ∧ ∀ vt, TyOK nw vt t.nodes → TyOK nw vt nt.nodes) :
    ∀ (L : List Veh) (acc acc' : Acc), (∀ v ∈ L, (assocGet? s.tours v).isSome = true) →
      TySame nw s.tours acc.1 → L.foldlM F acc = .ok acc' → TySame nw s.tours acc'.1
  | [], acc, acc', _, hH, h => by
    simp only [List.foldlM_nil, pure, Except.pure, Except.ok.injEq] at h
    rw [← h]; exact hH
  | x :: xs, acc, acc', hL, hH, h => by
    rw [List.foldlM_cons] at h
    obtain ⟨a1, h1, h⟩ := bind_ok h
    obtain ⟨nt, t, hset, ht, hh⟩ := hF acc x a1 h1
    refine fold_ty nw s F hF xs a1 acc' (fun v hv => hL v (by simp [hv])) ?_ h
    obtain ⟨t0, ht0⟩ := Option.isSome_iff_exists.mp (hL x (by simp))
    have : t = t0 := by
      unfold Schedule.tourOf? at ht
      rw [ht0] at ht
      simpa using ht.symm
    subst this
    intro w t' hw
    rw [hset, assocGet?_assocSet] at hw
    by_cases e : w = x
    · subst e
      simp only [↓reduceIte, Option.some.injEq] at hw
      subst hw
      exact ⟨t, ht0, hh⟩
    · simp only [e, ↓reduceIte] at hw
      exact hH w t' hw

theorem tySame_inv {nw : Network} {s : Schedule} {T' : Tours} (hinv : TypeInv nw s) (h : TySame nw s.tours T') :
    ∀ w t vt, assocGet? T' w = some t → assocGet? s.vehicles w = some vt → TyOK nw vt t.nodes := by
  intro w t' vt ht hvt
  obtain ⟨t, ht0, hh⟩ := h w t' ht
  exact hh vt (hinv w t vt ht0 hvt)

theorem improveTour_ty {nw : Network} {t nt : Tour} {vt0 : Nat} {u : DepotUsage}
    (h : improveDepotsOfTour nw t vt0 u = .ok nt) : ∀ vt, TyOK nw vt t.nodes → TyOK nw vt nt.nodes := by
  intro vt hty
  unfold improveDepotsOfTour at h
  inv_do h
  all_goals (try contradiction)
  all_goals (try (cases h))
  all_goals (try (simp only [pure, Except.pure, Except.ok.injEq] at *))
  all_goals (try subst_vars)
  all_goals (first
    | exact replaceEnd_tyOK (C15.unwrapR_ok (by assumption)) (replaceStart_tyOK (C15.unwrapR_ok (by assumption)) hty)
    | exact replaceStart_tyOK (C15.unwrapR_ok (by assumption)) hty
    | exact replaceEnd_tyOK (C15.unwrapR_ok (by assumption)) hty
    | exact hty)

theorem improveStep_ty {nw : Network} {s : Schedule} {acc acc' : Acc} {v : Veh}
    (h : improveStep nw s acc v = .ok acc') :
    ∃ nt t, acc'.1 = assocSet acc.1 v nt ∧ s.tourOf? v = some t ∧ ∀ vt, TyOK nw vt t.nodes → TyOK nw vt nt.nodes := by
  obtain ⟨tours, u, costs⟩ := acc
  unfold improveStep at h
  dsimp only at h
  obtain ⟨t, ht, h⟩ := bind_ok h
  obtain ⟨vt, hvt, h⟩ := bind_ok h
  obtain ⟨nt, hnt, h⟩ := bind_ok h
  obtain ⟨c, hc, h⟩ := bind_ok h
  obtain ⟨sd, hsd, h⟩ := bind_ok h
  obtain ⟨ed, hed, h⟩ := bind_ok h
  simp only [pure, Except.pure, Except.ok.injEq] at h
  subst h
  exact ⟨nt, t, rfl, unwrapO_ok ht, improveTour_ty hnt⟩

theorem greedyStep_ty {nw : Network} {s : Schedule} {acc acc' : Acc} {v : Veh}
    (h : greedyStep nw s acc v = .ok acc') :
    ∃ nt t, acc'.1 = assocSet acc.1 v nt ∧ s.tourOf? v = some t ∧ ∀ vt, TyOK nw vt t.nodes → TyOK nw vt nt.nodes := by
  obtain ⟨tours, u, costs⟩ := acc
  unfold greedyStep at h
  dsimp only at h
  obtain ⟨t, ht, h⟩ := bind_ok h
  obtain ⟨lnd, _, h⟩ := bind_ok h
  split at h
  · obtain ⟨ne, _, h⟩ := bind_ok h
    obtain ⟨nt, hnt, h⟩ := bind_ok h
    obtain ⟨c, hc, h⟩ := bind_ok h
    obtain ⟨u', hu', h⟩ := bind_ok h
    simp only [pure, Except.pure, Except.ok.injEq] at h
    subst h
    exact ⟨nt, t, rfl, unwrapO_ok ht, fun vt hty => replaceEnd_tyOK (unwrapR_ok hnt) hty⟩
  · simp [bind, Except.bind] at h

theorem endStep_ty {nw : Network} {s : Schedule} {acc acc' : Acc} {v : Veh}
    (h : C05.endStep nw s acc v = .ok acc') :
    ∃ nt t, acc'.1 = assocSet acc.1 v nt ∧ s.tourOf? v = some t ∧ ∀ vt, TyOK nw vt t.nodes → TyOK nw vt nt.nodes := by
  obtain ⟨tours, u, costs⟩ := acc
  unfold C05.endStep at h
  dsimp only at h
  obtain ⟨t, ht, h⟩ := bind_ok h
  obtain ⟨vt, hvt, h⟩ := bind_ok h
  obtain ⟨tr, htr, h⟩ := bind_ok h
  obtain ⟨next, hnext, h⟩ := bind_ok h
  obtain ⟨ntour, hntour, h⟩ := bind_ok h
  obtain ⟨sd, hsd, h⟩ := bind_ok h
  obtain ⟨nt, hnt, h⟩ := bind_ok h
  obtain ⟨c, _, h⟩ := bind_ok h
  obtain ⟨u', hu', h⟩ := bind_ok h
  simp only [pure, Except.pure, Except.ok.injEq] at h
  subst h
  exact ⟨nt, t, rfl, unwrapO_ok ht, fun vt hty => replaceEnd_tyOK (unwrapR_ok hnt) hty⟩

theorem tySame_refl (nw : Network) (T : Tours) : TySame nw T T :=
  fun _ t' h => ⟨t', h, fun _ hty => hty⟩

theorem improve_ty {nw : Network} {s s' : Schedule} {vs : Option (List Veh)} (hi : ListInv s)
    (hinv : TypeInv nw s) (h : improveDepots nw s vs = .ok s') : TypeInv nw s' := by
  have hsameV : s'.vehicles = s.vehicles := (C09U.improve_same h).2.2
  have hL : ∀ v ∈ vs.getD (s.vehiclesAll nw), (assocGet? s.tours v).isSome = true := by
    cases vs with
    | none => exact fun v hv => listed_hasTour hi hv
    | some ids =>
      intro v hv
      -- every listed vehicle is taken out of its depots first: it has a type, hence a tour
      unfold improveDepots at h
      dsimp only at h
      obtain ⟨usage0, h0, _⟩ := bind_ok h
      have hfail : ∀ (L : List Veh) (u u' : DepotUsage), L.foldlM (C09A.takeOut nw s) u = .ok u' →
          ∀ x ∈ L, ∃ vt, s.typeOf? x = some vt := by
        intro L
        induction L with
        | nil => intro _ _ _ x hx; cases hx
        | cons y ys ih =>
          intro u u' hf x hx
          rw [List.foldlM_cons] at hf
          obtain ⟨u1, h1, hf⟩ := bind_ok hf
          rcases List.mem_cons.mp hx with e | e
          · subst e
            obtain ⟨vt, _, _, _, hvt, _⟩ := C10U.takeOut_eq h1
            exact ⟨vt, hvt⟩
          · exact ih u1 u' hf x e
      obtain ⟨vt, hvt⟩ := hfail ids s.depotUsage usage0 h0 v hv
      exact typed_hasTour hi hvt
  unfold improveDepots at h
  dsimp only at h
  obtain ⟨usage0, h0, h⟩ := bind_ok h
  obtain ⟨⟨tours, usage, costs⟩, hfold, h⟩ := bind_ok h
  have hfold' : (vs.getD (s.vehiclesAll nw)).foldlM (improveStep nw s) (s.tours, usage0, s.costs)
      = .ok (tours, usage, costs) := hfold
  have hsame := fold_ty nw s (improveStep nw s) (fun acc v acc' hs => improveStep_ty hs) _ _ _ hL
    (tySame_refl nw s.tours) hfold'
  have htours : s'.tours = tours := by
    inv_do h
    all_goals (try contradiction)
    all_goals (try (cases h))
    all_goals (try (simp only [pure, Except.pure, Except.ok.injEq] at *))
    all_goals (try subst_vars)
    all_goals rfl
  unfold TypeInv
  rw [hsameV, htours]
  exact tySame_inv hinv hsame

theorem endGreedy_ty {nw : Network} {s s' : Schedule} (hi : ListInv s)
    (hinv : TypeInv nw s) (h : reassignEndDepotsGreedily nw s = .ok s') : TypeInv nw s' := by
  have hunf : reassignEndDepotsGreedily nw s = (do
      let (tours, usage, cst) ← (s.vehiclesAll nw).foldlM (greedyStep nw s) (s.tours, s.depotUsage, s.costs)
      let (trans, viol) ← recomputeTransitions nw s.idsByType tours nw.typeIdxs s.transitions s.violation
      pure { s with tours, transitions := trans, depotUsage := usage, violation := viol, costs := cst }) := rfl
  rw [hunf] at h
  obtain ⟨⟨tours, usage, cst⟩, hfold, h⟩ := bind_ok h
  dsimp only at h
  obtain ⟨⟨trans, viol⟩, _, h⟩ := bind_ok h
  simp only [pure, Except.pure, Except.ok.injEq] at h
  subst h
  have hsame := fold_ty nw s (greedyStep nw s) (fun acc v acc' hs => greedyStep_ty hs) _ _ _
    (fun v hv => listed_hasTour hi hv) (tySame_refl nw s.tours) hfold
  exact fun w t vt ht hvt => tySame_inv hinv hsame w t vt ht hvt

theorem endConsistent_ty {nw : Network} {s s' : Schedule} (hi : ListInv s)
    (hinv : TypeInv nw s) (h : reassignEndDepotsConsistent nw s = .ok s') : TypeInv nw s' := by
  have hunf : reassignEndDepotsConsistent nw s = (do
      let (tours, usage, cst) ← (s.vehiclesAll nw).foldlM (C05.endStep nw s) (s.tours, s.depotUsage, s.costs)
      let (trans, viol) ← updateTransitionsFast nw s s.vehicles tours (s.vehiclesAll nw) [] s.transitions s.violation
      pure { s with tours, transitions := trans, depotUsage := usage, violation := viol, costs := cst }) := rfl
  rw [hunf] at h
  obtain ⟨⟨tours, usage, cst⟩, hfold, h⟩ := bind_ok h
  dsimp only at h
  obtain ⟨⟨trans, viol⟩, _, h⟩ := bind_ok h
  simp only [pure, Except.pure, Except.ok.injEq] at h
  subst h
  have hsame := fold_ty nw s (C05.endStep nw s) (fun acc v acc' hs => endStep_ty hs) _ _ _
    (fun v hv => listed_hasTour hi hv) (tySame_refl nw s.tours) hfold
  exact fun w t vt ht hvt => tySame_inv hinv hsame w t vt ht hvt

/-- **C10 / C01 (type clause), one step** -/
theorem C10_types_step (nw : Network) (hn : NetHyp nw) (s : Schedule) (op : SOp) (r : OpResult)
    (hinv0 : C10Fit.Inv nw s) (hinv : TypeInv nw s) (hargs : ArgsOKF op)
    (h : applyOp nw s op = .ok r) : TypeInv nw r.sched := by
  obtain ⟨⟨hi, hd, ho⟩, hdo, _⟩ := hinv0
  unfold applyOp at h
  cases op with
  | init =>
    simp only [pure, Except.pure, Except.ok.injEq] at h
    rw [← h]; intro v t vt ht; simp [Schedule.empty, assocGet?_nil] at ht
  | spawn vt path =>
    obtain ⟨⟨s', v⟩, hs, h⟩ := bind_ok h
    simp only [pure, Except.pure, Except.ok.injEq] at h
    subst h; exact spawn_ty hinv hs
  | dummySpawn d vt =>
    obtain ⟨⟨s', v⟩, hs, h⟩ := bind_ok h
    simp only [pure, Except.pure, Except.ok.injEq] at h
    subst h; exact dummySpawn_ty hinv hs
  | delete v =>
    obtain ⟨s', hs, h⟩ := bind_ok h
    simp only [pure, Except.pure, Except.ok.injEq] at h
    subst h; exact delete_ty hinv hs
  | addPath v path =>
    dsimp only at h
    split at h
    · obtain ⟨⟨s', rm⟩, hs, h⟩ := bind_ok h
      simp only [pure, Except.pure, Except.ok.injEq] at h
      subst h; exact addPath_ty hn ho hinv hs
    · cases h
  | rmSeg v a b =>
    obtain ⟨s', hs, h⟩ := bind_ok h
    simp only [pure, Except.pure, Except.ok.injEq] at h
    subst h; exact rmSeg_ty hi hd hinv hs
  | fit p q a b =>
    obtain ⟨s', hs, h⟩ := bind_ok h
    simp only [pure, Except.pure, Except.ok.injEq] at h
    subst h; exact fit_ty hn hi hd ho hdo hinv hargs hs
  | override p q a b =>
    obtain ⟨⟨s', d⟩, hs, h⟩ := bind_ok h
    simp only [pure, Except.pure, Except.ok.injEq] at h
    subst h; exact override_ty hn hi hd ho hinv hargs hs
  | improve vs =>
    obtain ⟨s', hs, h⟩ := bind_ok h
    simp only [pure, Except.pure, Except.ok.injEq] at h
    subst h; exact improve_ty hi hinv hs
  | endGreedy =>
    obtain ⟨s', hs, h⟩ := bind_ok h
    simp only [pure, Except.pure, Except.ok.injEq] at h
    subst h; exact endGreedy_ty hi hinv hs
  | recompute vts =>
    obtain ⟨s', hs, h⟩ := bind_ok h
    simp only [pure, Except.pure, Except.ok.injEq] at h
    subst h
    unfold recomputeTransitionsFor at hs
    obtain ⟨⟨trans, viol⟩, _, hs⟩ := bind_ok hs
    simp only [pure, Except.pure, Except.ok.injEq] at hs
    rw [← hs]; exact hinv
  | endConsistent =>
    obtain ⟨s', hs, h⟩ := bind_ok h
    simp only [pure, Except.pure, Except.ok.injEq] at h
    subst h; exact endConsistent_ty hi hinv hs
  | setTrans vt v ci =>
    obtain ⟨tr, _, h⟩ := bind_ok h
    obtain ⟨moved, _, h⟩ := bind_ok h
    simp only [pure, Except.pure, Except.ok.injEq] at h
    subst h; exact hinv

end RSSched.C10Ty
