/-
Props/C15Batch: batches of transition updates that thread the "updated tours first" overlay, as the
schedule modifications do (`update_transitions_and_violation_fast`). One vehicle gets a new tour and,
in the same batch, another vehicle leaves the transition: the result is exact with respect to the
tours AFTER the batch (the overlay), whatever the two vehicles and the new tour are. (Seeded change
C15-9 breaks exactly this: it reads the remaining vehicle's tour from the old tours only.)
-/
import RSSched.Props.C15Ops
namespace RSSched.C15
open RSSched Spec Cyclic

theorem members_of_cycles {tr tr' : Transition}
    (h : tr'.cycles.map (·.vehicles) = tr.cycles.map (·.vehicles)) : members tr' = members tr := by
  unfold members
  rw [List.flatMap_def, List.flatMap_def, h]

/-- **C15, update-then-remove batch**: from a transition that is exact for the tours `old`, updating
    `v1` to `n1` and then removing `v2` with the overlay `[(v1, n1)]` gives a transition that is exact
    for the tours after the batch; `v2` leaves, nobody else moves -/
theorem C15_update_remove_batch (nw : Network) (tr t1 t2 : Transition) (v1 v2 : Veh) (n1 : Tour) (old : Tours)
    (hc : Consistent nw (overlay [] old) tr) (hne : v1 ≠ v2)
    (h1 : Transition.updateVehicle nw tr v1 n1 [] old = .ok t1)
    (h2 : Transition.removeVehicle nw t1 v2 [(v1, n1)] old = .ok t2) :
    Consistent nw (overlay [(v1, n1)] old) t2 ∧ (∀ w, w ∈ members t2 ↔ w ∈ members tr ∧ w ≠ v2) := by
  obtain ⟨hc1, hcyc, _, _⟩ := update_consistent nw tr t1 v1 n1 [] old hc (by simp [assocGet?_nil]) h1
  have hfresh : assocGet? [(v1, n1)] v2 = none := by
    rw [assocGet?_cons]; simp [hne, assocGet?_nil]
  obtain ⟨hc2, hm, _⟩ := remove_consistent nw t1 t2 v2 [(v1, n1)] old hc1 hfresh h2
  refine ⟨hc2, fun w => ?_⟩
  rw [hm w, members_of_cycles hcyc]

end RSSched.C15
