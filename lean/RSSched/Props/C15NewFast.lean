/-
Props/C15NewFast: `Transition::new_fast` (the greedy clustering that builds the rotation cycles of a
vehicle type from scratch) returns a transition that satisfies the bookkeeping invariant
`C15.Consistent` over exactly the given vehicles: the cycles partition them, the lookup and the
(empty) list of reusable cycles match, every cycle's maintenance counter equals its from-scratch value
and the totals are the sums.
-/
import RSSched.Props.C15Ops
namespace RSSched.C15N
open RSSched Spec Cyclic C15 Transition

/-- the tour map `new_fast` reads -/
abbrev TM (tours : Tours) : TourMap := fun w => assocGet? tours w

/-! ### `mapMR` -/

theorem mapMR_get {α β} (f : α → R β) : ∀ (l : List α) (ys : List β), Tour.mapMR f l = .ok ys →
    ys.length = l.length ∧ ∀ (i : Nat) (y : β), ys[i]? = some y → ∃ x, l[i]? = some x ∧ f x = .ok y
  | [], ys, h => by
    simp only [Tour.mapMR, pure, Except.pure, Except.ok.injEq] at h
    subst h
    exact ⟨rfl, fun i y hy => by simp at hy⟩
  | x :: xs, ys, h => by
    unfold Tour.mapMR at h
    obtain ⟨y0, hy0, h⟩ := bind_ok h
    obtain ⟨ys0, hys0, h⟩ := bind_ok h
    simp only [pure, Except.pure, Except.ok.injEq] at h
    subst h
    obtain ⟨hl, hg⟩ := mapMR_get f xs ys0 hys0
    refine ⟨by simp [hl], fun i y hy => ?_⟩
    cases i with
    | zero =>
      simp only [List.getElem?_cons_zero, Option.some.injEq] at hy
      subst hy
      exact ⟨x, by simp, hy0⟩
    | succ j =>
      simp only [List.getElem?_cons_succ] at hy ⊢
      exact hg j y hy

/-- when every successful call of `f` returns `g x`, a successful `mapMR f` is `map g` -/
theorem mapMR_eq_map {α β} (f : α → R β) (g : α → β) (hfg : ∀ x y, f x = .ok y → y = g x) :
    ∀ (l : List α) (ys : List β), Tour.mapMR f l = .ok ys → ys = l.map g
  | [], ys, h => by
    simp only [Tour.mapMR, pure, Except.pure, Except.ok.injEq] at h
    subst h; rfl
  | x :: xs, ys, h => by
    unfold Tour.mapMR at h
    obtain ⟨y0, hy0, h⟩ := bind_ok h
    obtain ⟨ys0, hys0, h⟩ := bind_ok h
    simp only [pure, Except.pure, Except.ok.injEq] at h
    subst h
    rw [List.map_cons, ← hfg x y0 hy0, ← mapMR_eq_map f g hfg xs ys0 hys0]

/-! ### clusters -/

/-- a cluster is a non-empty open chain whose counter is the sum of its members' maintenance
    counters and of the depot links between consecutive members -/
def ClOK (nw : Network) (T : TourMap) (c : Cluster) : Prop :=
  c.1 ≠ [] ∧ c.2 = sumInt (c.1.map (mcOf nw T)) + pairSumI (linkOf nw T) c.1

/-- the clusters partition the vehicles handled so far -/
structure ClsOK (nw : Network) (T : TourMap) (cls : List Cluster) (done : List Veh) : Prop where
  each : ∀ c ∈ cls, ClOK nw T c
  nodup : (cls.flatMap (·.1)).Nodup
  mem : ∀ w, w ∈ cls.flatMap (·.1) ↔ w ∈ done

theorem clsOK_perm {nw : Network} {T : TourMap} {cls cls' : List Cluster} {done : List Veh}
    (hp : cls.Perm cls') (h : ClsOK nw T cls done) : ClsOK nw T cls' done := by
  have hfp : (cls.flatMap (·.1)).Perm (cls'.flatMap (·.1)) := hp.flatMap_right _
  exact ⟨fun c hc => h.each c (hp.mem_iff.mpr hc), hfp.nodup_iff.mp h.nodup,
    fun w => by rw [← hfp.mem_iff]; exact h.mem w⟩

theorem clsOK_done {nw : Network} {T : TourMap} {cls : List Cluster} {done done' : List Veh}
    (hd : ∀ w, w ∈ done ↔ w ∈ done') (h : ClsOK nw T cls done) : ClsOK nw T cls done' :=
  ⟨h.each, h.nodup, fun w => by rw [h.mem w]; exact hd w⟩

theorem pushToCluster_ok {nw : Network} {tours : Tours} {c c' : Cluster} {v : Veh}
    (h : pushToCluster nw c v tours = .ok c') (hc : ClOK nw (TM tours) c) :
    c'.1 = c.1 ++ [v] ∧ ClOK nw (TM tours) c' := by
  unfold pushToCluster at h
  obtain ⟨t, ht, h⟩ := bind_ok h
  obtain ⟨lastV, hlast, h⟩ := bind_ok h
  obtain ⟨lt, hlt, h⟩ := bind_ok h
  obtain ⟨e, he, h⟩ := bind_ok h
  obtain ⟨s, hs, h⟩ := bind_ok h
  simp only [pure, Except.pure, Except.ok.injEq] at h
  subst h
  have ht := unwrapO_ok ht
  have hlast := unwrapO_ok hlast
  have hlt := unwrapO_ok hlt
  have he : lt.endDepot nw = .ok e := unwrapR_ok he
  have hs : t.startDepot nw = .ok s := unwrapR_ok hs
  refine ⟨rfl, by simp, ?_⟩
  obtain ⟨hne, hc2⟩ := hc
  show c.2 + t.maintenanceCounter nw + depotDist nw e s =
    sumInt ((c.1 ++ [v]).map (mcOf nw (TM tours))) + pairSumI (linkOf nw (TM tours)) (c.1 ++ [v])
  rw [sumInt_map_snoc, pairSumI_append, hlast]
  have hm : mcOf nw (TM tours) v = t.maintenanceCounter nw := by
    unfold mcOf TM; rw [ht]
  have hl : linkOf nw (TM tours) lastV v = depotDist nw e s := by
    unfold linkOf TM; rw [hlt, ht]; simp only [he, hs]
  simp only [List.head?_cons, connI, pairSumI_single, hm, hl]
  omega

theorem flatMap_set_perm (cls : List Cluster) (i : Nat) (c c' : Cluster) (v : Veh)
    (hi : cls[i]? = some c) (hc' : c'.1 = c.1 ++ [v]) :
    ((cls.set i c').flatMap (·.1)).Perm (v :: cls.flatMap (·.1)) := by
  obtain ⟨hlt, hget⟩ := List.getElem?_eq_some_iff.mp hi
  have h1 : cls = cls.take i ++ c :: cls.drop (i + 1) := by
    conv => lhs; rw [← List.take_append_drop i cls, List.drop_eq_getElem_cons hlt, hget]
  have h2 : cls.set i c' = cls.take i ++ c' :: cls.drop (i + 1) := by
    rw [List.set_eq_take_append_cons_drop, if_pos hlt]
  rw [h2]
  conv => rhs; rw [h1]
  simp only [List.flatMap_append, List.flatMap_cons, hc']
  -- A ++ ((c ++ [v]) ++ B)  ~  v :: (A ++ (c ++ B))
  refine List.Perm.trans ?_ (List.perm_middle)
  refine List.Perm.append_left _ ?_
  rw [List.append_assoc]
  refine List.Perm.trans (List.Perm.append_left _ (List.perm_append_comm (l₁ := [v]))) ?_
  rw [← List.append_assoc]
  exact (List.perm_append_comm (l₁ := c.1 ++ List.flatMap (·.1) (cls.drop (i + 1))) (l₂ := [v]))

theorem clsOK_set {nw : Network} {tours : Tours} {cls : List Cluster} {done : List Veh} {i : Nat} {c c' : Cluster}
    {v : Veh} (h : ClsOK nw (TM tours) cls done) (hi : cls[i]? = some c)
    (hpush : pushToCluster nw c v tours = .ok c') (hv : v ∉ done) :
    ClsOK nw (TM tours) (cls.set i c') (v :: done) := by
  have hcin : c ∈ cls := List.mem_of_getElem? hi
  obtain ⟨hc1, hcok⟩ := pushToCluster_ok hpush (h.each c hcin)
  have hp := flatMap_set_perm cls i c c' v hi hc1
  refine ⟨fun x hx => ?_, hp.nodup_iff.mpr ?_, fun w => ?_⟩
  · rcases List.mem_or_eq_of_mem_set hx with hx | hx
    · exact h.each x hx
    · rw [hx]; exact hcok
  · exact List.nodup_cons.mpr ⟨fun hm => hv ((h.mem v).mp hm), h.nodup⟩
  · rw [hp.mem_iff, List.mem_cons, List.mem_cons, h.mem w]

theorem assignLoop_inv {nw : Network} {tours : Tours} : ∀ (vs : List Veh) (cls res : List Cluster) (done : List Veh),
    assignLoop nw tours vs cls = .ok res → ClsOK nw (TM tours) cls done → (∀ v ∈ vs, v ∉ done) → vs.Nodup →
    ClsOK nw (TM tours) res (vs.reverse ++ done)
  | [], cls, res, done, h, hc, _, _ => by
    simp only [assignLoop, pure, Except.pure, Except.ok.injEq] at h
    subst h; simpa using hc
  | v :: rest, cls, res, done, h, hc, hnew, hnd => by
    unfold assignLoop at h
    obtain ⟨t, ht, h⟩ := bind_ok h
    dsimp only at h
    have hvd : v ∉ done := hnew v (by simp)
    have finish : ∀ cls', ClsOK nw (TM tours) cls' (v :: done) →
        assignLoop nw tours rest (sortByInt (fun c => c.2) cls') = .ok res →
        ClsOK nw (TM tours) res ((v :: rest).reverse ++ done) := by
      intro cls' hstep hrec
      have hsorted : ClsOK nw (TM tours) (sortByInt (fun c => c.2) cls') (v :: done) :=
        clsOK_perm (List.mergeSort_perm _ _).symm hstep
      have := assignLoop_inv rest _ res (v :: done) hrec hsorted
        (fun w hw => by
          intro hm
          rcases List.mem_cons.mp hm with e | e
          · subst e; exact (List.nodup_cons.mp hnd).1 hw
          · exact hnew w (by simp [hw]) e)
        (List.nodup_cons.mp hnd).2
      refine clsOK_done (fun w => ?_) this
      simp only [List.reverse_cons, List.mem_append, List.mem_reverse, List.mem_cons, List.mem_singleton,
        List.not_mem_nil, or_false]
      constructor
      · rintro (h1 | h1 | h1)
        · exact Or.inl (Or.inl h1)
        · exact Or.inl (Or.inr h1)
        · exact Or.inr h1
      · rintro ((h1 | h1) | h1)
        · exact Or.inl h1
        · exact Or.inr (Or.inl h1)
        · exact Or.inr (Or.inr h1)
    split at h
    · rename_i bi hbi
      obtain ⟨c, hc0, h⟩ := bind_ok h
      obtain ⟨c', hpush, h⟩ := bind_ok h
      simp only [pure_bind] at h
      exact finish _ (clsOK_set hc (unwrapO_ok hc0) hpush hvd) h
    · split at h
      · rename_i c hlast
        obtain ⟨c', hpush, h⟩ := bind_ok h
        simp only [pure_bind] at h
        have hi : cls[cls.length - 1]? = some c := by
          rw [← List.getLast?_eq_getElem?]; exact hlast
        exact finish _ (clsOK_set hc hi hpush hvd) h
      · rename_i hnone
        simp only [pure_bind] at h
        refine finish _ ?_ h
        have hnil : cls = [] := List.getLast?_eq_none_iff.mp hnone
        subst hnil
        have hdone : ∀ w, w ∉ done := fun w hw => by
          have := (hc.mem w).mpr hw
          simp at this
        have ht' := unwrapO_ok ht
        refine ⟨fun c hc' => ?_, by simp, fun w => ?_⟩
        · simp only [List.mem_singleton] at hc'
          subst hc'
          refine ⟨by simp, ?_⟩
          show t.maintenanceCounter nw = sumInt ([v].map (mcOf nw (TM tours))) + pairSumI (linkOf nw (TM tours)) [v]
          have hm : mcOf nw (TM tours) v = t.maintenanceCounter nw := by unfold mcOf TM; rw [ht']
          simp [sumInt, hm]
        · simp only [List.flatMap_cons, List.flatMap_nil, List.append_nil, List.mem_singleton, List.mem_cons,
            List.not_mem_nil, or_false]
          constructor
          · intro e; exact Or.inl e
          · intro e; rcases e with e | e
            · exact e
            · exact absurd e (hdone w)

/-! ### the lookup table built from the cycles -/

/-- the association list `new_fast` sorts into the lookup: (vehicle, index of its cycle) -/
def lookupList (cycles : List Cycle) : List (Veh × Nat) :=
  (List.range cycles.length).flatMap (fun i => (cycles.getD i default).vehicles.map (fun v => (v, i)))

theorem lookupList_mem (cycles : List Cycle) (v : Veh) (i : Nat) :
    (v, i) ∈ lookupList cycles ↔ ∃ c : Cycle, cycles[i]? = some c ∧ v ∈ c.vehicles := by
  unfold lookupList
  simp only [List.mem_flatMap, List.mem_range, List.mem_map, Prod.mk.injEq]
  constructor
  · rintro ⟨j, hj, w, hw, rfl, rfl⟩
    refine ⟨cycles[j], List.getElem?_eq_getElem hj, ?_⟩
    rw [List.getD_eq_getElem?_getD, List.getElem?_eq_getElem hj] at hw
    exact hw
  · rintro ⟨c, hc, hv⟩
    obtain ⟨hlt, hget⟩ := List.getElem?_eq_some_iff.mp hc
    refine ⟨i, hlt, v, ?_, rfl, rfl⟩
    rw [List.getD_eq_getElem?_getD, hc]
    exact hv

theorem lookupList_keys_take (cycles : List Cycle) : ∀ k, k ≤ cycles.length →
    ((List.range k).flatMap (fun i => (cycles.getD i default).vehicles.map (fun v => (v, i)))).map (·.1)
      = (cycles.take k).flatMap (·.vehicles)
  | 0, _ => by simp
  | k + 1, hk => by
    have ih := lookupList_keys_take cycles k (by omega)
    have hlt : k < cycles.length := by omega
    rw [List.range_succ, List.flatMap_append, List.map_append, ih, List.take_add_one,
      List.getElem?_eq_getElem hlt, List.flatMap_append]
    simp only [List.flatMap_cons, List.flatMap_nil, List.append_nil, Option.toList_some, List.map_map]
    congr 1
    rw [List.getD_eq_getElem?_getD, List.getElem?_eq_getElem hlt]
    simp only [Option.getD_some]
    induction cycles[k].vehicles with
    | nil => rfl
    | cons a as ih2 => simp only [List.map_cons, Function.comp_apply, ih2]

theorem lookupList_keys (cycles : List Cycle) :
    (lookupList cycles).map (·.1) = cycles.flatMap (·.vehicles) := by
  have := lookupList_keys_take cycles cycles.length (Nat.le_refl _)
  rw [List.take_length] at this
  exact this

/-! ### `new_fast` -/

theorem flatMap_singletons (l : List Veh) (f : Veh → Int) :
    (l.map (fun v => (([v], f v) : Cluster))).flatMap (·.1) = l := by
  induction l with
  | nil => rfl
  | cons a as ih => simp only [List.map_cons, List.flatMap_cons, ih]; rfl

theorem cluster_nodup {cls : List Cluster} (h : (cls.flatMap (·.1)).Nodup) {c : Cluster} (hc : c ∈ cls) :
    c.1.Nodup := by
  rw [List.flatMap_def] at h
  exact (List.sublist_flatten_of_mem (List.mem_map_of_mem (f := (·.1)) hc)).nodup h

/-- **C15 (`Transition::new_fast`)**: for every duplicate-free list of vehicles whose tours have a start
    and an end depot, the transition `new_fast` returns is consistent over exactly these vehicles -/
theorem newFast_consistent (nw : Network) (vehicles : List Veh) (tours : Tours) (tr : Transition)
    (hnd : vehicles.Nodup) (htoured : ∀ v ∈ vehicles, Toured nw (TM tours) v)
    (h : Transition.newFast nw vehicles tours = .ok tr) :
    Consistent nw (TM tours) tr ∧ (∀ w, w ∈ members tr ↔ w ∈ vehicles) ∧ tr.empty = [] := by
  unfold Transition.newFast at h
  obtain ⟨withMc, hmc, h⟩ := bind_ok h
  dsimp only at h
  obtain ⟨clusters, hloop, h⟩ := bind_ok h
  obtain ⟨cycles, hcyc, h⟩ := bind_ok h
  simp only [pure, Except.pure, Except.ok.injEq] at h
  -- the counters read at the beginning
  let m : Veh → Int := mcOf nw (TM tours)
  have hwith : withMc = vehicles.map (fun v => (v, m v)) := by
    refine mapMR_eq_map _ _ (fun x y hxy => ?_) vehicles withMc hmc
    obtain ⟨t, ht, hxy⟩ := bind_ok hxy
    simp only [pure, Except.pure, Except.ok.injEq] at hxy
    subst hxy
    have ht := unwrapO_ok ht
    show (x, t.maintenanceCounter nw) = (x, mcOf nw (TM tours) x)
    unfold mcOf TM; rw [ht]
  -- start clusters: one per vehicle with a negative counter
  have hc0 : (withMc.filter (fun p => p.2 < 0)).map (fun p => (([p.1], p.2) : Cluster))
      = (vehicles.filter (fun v => m v < 0)).map (fun v => (([v], m v) : Cluster)) := by
    rw [hwith, List.filter_map, List.map_map]; rfl
  have hun : ((sortByInt (fun p => -p.2) (withMc.filter (fun p => !(p.2 < 0)))).map (·.1)).Perm
      (vehicles.filter (fun v => !(m v < 0))) := by
    have h1 : (withMc.filter (fun p => !(p.2 < 0))).map (·.1) = vehicles.filter (fun v => !(m v < 0)) := by
      rw [hwith, List.filter_map, List.map_map]
      have : ((fun x : Veh × Int => x.1) ∘ fun v => (v, m v)) = id := rfl
      rw [this, List.map_id]; rfl
    rw [← h1]
    exact (List.mergeSort_perm _ _).map _
  have hstart : ClsOK nw (TM tours) ((vehicles.filter (fun v => m v < 0)).map (fun v => (([v], m v) : Cluster)))
      (vehicles.filter (fun v => m v < 0)) := by
    refine ⟨fun c hc => ?_, ?_, fun w => ?_⟩
    · obtain ⟨v, _, rfl⟩ := List.mem_map.mp hc
      refine ⟨by simp, ?_⟩
      show m v = sumInt ([v].map (mcOf nw (TM tours))) + pairSumI (linkOf nw (TM tours)) [v]
      simp [sumInt, m]
    · rw [flatMap_singletons]; exact hnd.filter _
    · rw [flatMap_singletons]
  rw [hc0] at hloop
  have hsortedStart := clsOK_perm (List.mergeSort_perm (le := fun a b => decide (-a.2 ≤ -b.2))
    ((vehicles.filter (fun v => m v < 0)).map (fun v => (([v], m v) : Cluster)))).symm hstart
  have hcls := assignLoop_inv _ _ clusters _ hloop hsortedStart
    (fun v hv hneg => by
      have h1 := (List.mem_filter.mp (hun.mem_iff.mp hv)).2
      have h2 := (List.mem_filter.mp hneg).2
      simp only [Bool.not_eq_true', decide_eq_false_iff_not] at h1
      simp only [decide_eq_true_eq] at h2
      exact h1 h2)
    (hun.nodup_iff.mpr (hnd.filter _))
  have hmemAll : ∀ w, w ∈ clusters.flatMap (·.1) ↔ w ∈ vehicles := by
    intro w
    rw [hcls.mem w, List.mem_append, List.mem_reverse, hun.mem_iff, List.mem_filter, List.mem_filter]
    constructor
    · rintro (⟨h1, _⟩ | ⟨h1, _⟩) <;> exact h1
    · intro hw
      by_cases hm : m w < 0
      · exact Or.inr ⟨hw, by simpa using hm⟩
      · exact Or.inl ⟨hw, by simpa using hm⟩
  -- the cycles
  obtain ⟨hlen, hget⟩ := mapMR_get _ clusters cycles hcyc
  have hcy : ∀ (i : Nat) (cy : Cycle), cycles[i]? = some cy →
      ∃ c : Cluster, clusters[i]? = some c ∧ cy.vehicles = c.1 ∧ cy.counter = counterSpec nw (TM tours) c.1 := by
    intro i cy hi
    obtain ⟨c, hc, hg⟩ := hget i cy hi
    refine ⟨c, hc, ?_⟩
    obtain ⟨lastV, hlast, hg⟩ := bind_ok hg
    obtain ⟨firstV, hfirst, hg⟩ := bind_ok hg
    obtain ⟨lt, hlt, hg⟩ := bind_ok hg
    obtain ⟨ft, hft, hg⟩ := bind_ok hg
    obtain ⟨e, he, hg⟩ := bind_ok hg
    obtain ⟨s0, hs0, hg⟩ := bind_ok hg
    simp only [pure, Except.pure, Except.ok.injEq] at hg
    subst hg
    refine ⟨rfl, ?_⟩
    obtain ⟨_, hc2⟩ := hcls.each c (List.mem_of_getElem? hc)
    have hlast := unwrapO_ok hlast
    have hfirst := unwrapO_ok hfirst
    have hlt := unwrapO_ok hlt
    have hft := unwrapO_ok hft
    have he : lt.endDepot nw = .ok e := unwrapR_ok he
    have hs0 : ft.startDepot nw = .ok s0 := unwrapR_ok hs0
    show c.2 + depotDist nw e s0 = counterSpec nw (TM tours) c.1
    unfold counterSpec cyc
    rw [hlast, hfirst, hc2]
    have hl : linkOf nw (TM tours) lastV firstV = depotDist nw e s0 := by
      unfold linkOf TM; rw [hlt, hft]; simp only [he, hs0]
    simp only [connI, hl]
    omega
  have hvehs : cycles.map (·.vehicles) = clusters.map (·.1) := by
    apply List.ext_getElem?
    intro i
    rw [List.getElem?_map, List.getElem?_map]
    cases hci : cycles[i]? with
    | none =>
      have : clusters[i]? = none := by
        rw [List.getElem?_eq_none_iff] at hci ⊢; omega
      rw [this]; rfl
    | some cy =>
      obtain ⟨c, hc, hv, _⟩ := hcy i cy hci
      rw [hc]; simp [hv]
  have hmembers : cycles.flatMap (·.vehicles) = clusters.flatMap (·.1) := by
    rw [List.flatMap_def, List.flatMap_def, hvehs]
  have hkeys : ((lookupList cycles).map (·.1)).Nodup := by
    rw [lookupList_keys, hmembers]; exact hcls.nodup
  have hsortKeys : ((sortLookup (lookupList cycles)).map (·.1)).Nodup :=
    (((List.mergeSort_perm _ _).map _).nodup_iff).mpr hkeys
  rw [← h]
  refine ⟨⟨?_, ?_, ?_, ?_, ?_, ?_, ?_, rfl, rfl⟩, ?_, rfl⟩
  · intro i cy hi
    obtain ⟨c, hc, hv, _⟩ := hcy i cy hi
    rw [hv]; exact cluster_nodup hcls.nodup (List.mem_of_getElem? hc)
  · intro i cy hi v hv
    refine htoured v ((hmemAll v).mp ?_)
    rw [← hmembers]
    exact List.mem_flatMap.mpr ⟨cy, List.mem_of_getElem? hi, hv⟩
  · exact hsortKeys
  · intro v i
    show assocGet? (sortLookup (lookupList cycles)) v = some i ↔ _
    unfold sortLookup
    rw [assocGet?_perm (List.mergeSort_perm _ _) hsortKeys v]
    constructor
    · intro hg; exact (lookupList_mem cycles v i).mp (assocGet?_mem hg)
    · intro hm; exact assocGet?_of_mem hkeys ((lookupList_mem cycles v i).mpr hm)
  · exact List.nodup_nil
  · intro i
    constructor
    · intro hi; cases hi
    · rintro ⟨cy, hi, hempty⟩
      exfalso
      obtain ⟨c, hc, hv, _⟩ := hcy i cy hi
      exact (hcls.each c (List.mem_of_getElem? hc)).1 (by rw [← hv]; exact hempty)
  · intro i cy hi
    obtain ⟨c, hc, hv, hcnt⟩ := hcy i cy hi
    rw [hv]; exact hcnt
  · intro w
    show w ∈ cycles.flatMap (·.vehicles) ↔ _
    rw [hmembers]; exact hmemAll w

end RSSched.C15N
