/-
Props/C12Insert: **C12 (insert), full strength** — whenever the model of `Tour::insert_path`
returns, its node list is "longest reaching prefix ++ path ++ longest reached suffix" and the
reported dropped nodes are exactly the middle (the reference semantics `insertRef` of
Spec/Tour.lean, which contains no binary search and no index arithmetic); and the position
computation itself never faults on valid tours.
-/
import RSSched.Lemmas.InsertPos
import RSSched.Props.C12
namespace RSSched.C12
open RSSched Network Tour Spec

theorem bind_ok {α β} {x : R α} {f : α → R β} {b : β} (h : (x >>= f) = .ok b) :
    ∃ a, x = .ok a ∧ f a = .ok b := by
  cases x with
  | error e => simp [bind, Except.bind] at h
  | ok a => exact ⟨a, rfl, h⟩

/-- activities have positive duration -/
def ActPos (nw : Network) : Prop :=
  ∀ i, isActivity (nw.node i) = true → ExtTime.lt (nw.node i).startT (nw.node i).endT = true

theorem timeChain_of_chainB (nw : Network) (hd : C17.DepotTimes nw) (nodes : List Nat)
    (h : chainB nw nodes = true) : TimeChain nw nodes := by
  intro i hi
  exact C17.reach_end_le_start nw hd _ _ (chain_step nw nodes h i hi)

theorem timeChain_of_timeChainB (nw : Network) (nodes : List Nat) (h : timeChainB nw nodes = true) :
    TimeChain nw nodes := by
  intro i hi
  unfold timeChainB at h
  exact (pairs_all_iff (fun p => ExtTime.le (nw.node p.1).endT (nw.node p.2).startT) nodes 0).mp h i hi

/-- every valid tour (real or dummy) is a time chain -/
theorem timeChain_of_valid (nw : Network) (hd : C17.DepotTimes nw) (t : Tour) (h : tourValidB nw t = true) :
    TimeChain nw t.nodes := by
  unfold tourValidB at h
  split at h
  · simp only [Bool.and_eq_true] at h
    exact timeChain_of_timeChainB nw _ h.2
  · simp only [Bool.and_eq_true] at h
    exact timeChain_of_chainB nw hd _ h.1.2

/-- **the position computation never faults and returns the reference positions** -/
theorem C12_positions (nw : Network) (hd : C17.DepotTimes nw) (hw : NodesWF' nw) (t : Tour)
    (hc : TimeChain nw t.nodes) (hne : 0 < t.nodes.length) (first last : Nat) :
    getInsertPositions nw true t first last = .ok
      (if (nw.node first).isDepot then 0 else keepPrefixLen nw t.nodes first,
       if (nw.node last).isDepot then t.nodes.length else keepSuffixStart nw t.nodes last) := by
  unfold getInsertPositions
  obtain ⟨r1, h1, e1⟩ := lnr_spec nw hd hw t hc hne first
  obtain ⟨r2, h2, e2⟩ := lnrb_spec nw hd hw t hc hne last
  cases hf : (nw.node first).isDepot <;> cases hl : (nw.node last).isDepot <;>
    simp [h1, h2, bind, Except.bind, pure, Except.pure, e1] <;> exact e2

theorem lt_irrefl_ext (a : ExtTime) : ExtTime.lt a a = false := by
  cases a <;> simp [ExtTime.lt]

theorem not_lt_earliest (a : ExtTime) : ExtTime.lt a .earliest = false := by
  cases a <;> simp [ExtTime.lt, ExtTime.le]

/-- **the replaced range is well-formed**: prefix length ≤ suffix start -/
theorem C12_positions_ordered (nw : Network) (hd : C17.DepotTimes nw) (hw : NodesWF' nw) (hp : ActPos nw)
    (nodes : List Nat) (hc : TimeChain nw nodes) (first last : Nat)
    (hfl : ExtTime.le (nw.node first).endT (nw.node last).endT = true)
    (hlast : isActivity (nw.node last) = true) :
    keepPrefixLen nw nodes first ≤ keepSuffixStart nw nodes last := by
  unfold keepPrefixLen keepSuffixStart
  by_cases hlt : firstTrueFrom (reachedAt nw nodes last) nodes.length 0 < lastTrueLen (reachesAt nw nodes first) nodes.length
  · exfalso
    have hk := lastTrueLen_le (reachesAt nw nodes first) nodes.length
    have hk1 := lastTrueLen_true (reachesAt nw nodes first) nodes.length (by omega)
    have hm := firstTrueFrom_true (reachedAt nw nodes last) nodes.length 0 (by omega)
    -- abbreviations
    generalize hK : lastTrueLen (reachesAt nw nodes first) nodes.length = k at *
    generalize hM : firstTrueFrom (reachedAt nw nodes last) nodes.length 0 = m at *
    have r1 : nw.canReach (nodes.getD (k - 1) 0) first = true := hk1
    have r2 : nw.canReach last (nodes.getD m 0) = true := hm
    have t1 := C17.reach_end_le_start nw hd _ _ r1
    have t2 := C17.reach_end_le_start nw hd _ _ r2
    have t3 := monoStart_of_timeChain nw hw nodes hc m (k - 1) (by omega) (by omega)
    -- end(n[k-1]) ≤ start(first) ≤ end(first) ≤ end(last) ≤ start(n[m]) ≤ start(n[k-1])
    have c1 := ExtTime.le_trans' t1 (ExtTime.le_trans' (hw first) (ExtTime.le_trans' hfl (ExtTime.le_trans' t2 t3)))
    -- so n[k-1] has start = end
    have heq := C17.ExtTime.le_antisymm (hw (nodes.getD (k - 1) 0)) c1
    -- it can reach something, so it is not an end depot; if it is an activity: positive duration
    by_cases hact : isActivity (nw.node (nodes.getD (k - 1) 0)) = true
    · have := hp _ hact
      rw [heq, lt_irrefl_ext] at this; cases this
    · -- a depot that can reach: a start depot; then everything collapses to `earliest`
      have hsd : (nw.node (nodes.getD (k - 1) 0)).kind = .startDepot := by
        unfold canReach canReachNodes at r1
        unfold isActivity Node.isService Node.isMaint at hact
        cases hkind : (nw.node (nodes.getD (k - 1) 0)).kind <;>
          simp_all [Node.isStartDepot, Node.isEndDepot]
      have hE := hd.start _ hsd
      -- end(last) ≤ start(n[m]) ≤ start(n[k-1]) ≤ end(n[k-1]) = earliest
      have c2 := ExtTime.le_trans' t2 (ExtTime.le_trans' t3 (hw _))
      rw [hE] at c2
      have hle : (nw.node last).endT = .earliest := by
        cases hx : (nw.node last).endT <;> simp_all [ExtTime.le]
      have := hp last hlast
      rw [hle, not_lt_earliest] at this; cases this
  · omega

end RSSched.C12

namespace RSSched.C12
open RSSched Network Tour Spec

theorem idxAt_inv {l : List Nat} {i x : Nat} (h : idxAt l i = .ok x) : i < l.length ∧ x = l.getD i 0 := by
  unfold idxAt at h
  cases hg : l[i]? with
  | none => simp [hg] at h
  | some y =>
    simp only [hg, Except.ok.injEq] at h
    have := List.getElem?_eq_some_iff.mp hg
    exact ⟨this.1, by rw [← h, List.getD_eq_getElem?_getD, hg]; rfl⟩

theorem getD_zero_headD (l : List Nat) : l.getD 0 0 = l.headD 0 := by
  cases l <;> rfl

theorem getD_last_getLastD (l : List Nat) : l.getD (l.length - 1) 0 = l.getLastD 0 := by
  induction l with
  | nil => rfl
  | cons a as ih =>
    cases as with
    | nil => rfl
    | cons b bs =>
      simp only [List.length_cons, List.getLastD_cons] at ih ⊢
      have : (a :: b :: bs).getD (bs.length + 1 + 1 - 1) 0 = (b :: bs).getD (bs.length + 1 - 1) 0 := by
        simp [List.getD_cons_succ]
      rw [this, ih]

theorem pathTrusted_eq (nw : Network) (l : List Nat) :
    pathTrusted nw l = if hasNonDepot nw l then some l else none := by
  unfold pathTrusted hasNonDepot
  by_cases h : l.all (fun n => (nw.node n).isDepot) = true
  · have : l.any (fun n => !(nw.node n).isDepot) = false := by
      rw [Bool.eq_false_iff]; intro ha
      obtain ⟨x, hx, hx2⟩ := List.any_eq_true.mp ha
      have := List.all_eq_true.mp h x hx
      simp [this] at hx2
    simp [h, this]
  · have : l.any (fun n => !(nw.node n).isDepot) = true := by
      rw [Bool.not_eq_true] at h
      cases ha : l.any (fun n => !(nw.node n).isDepot)
      · exfalso
        have : l.all (fun n => (nw.node n).isDepot) = true := by
          apply List.all_eq_true.mpr
          intro x hx
          cases hd : (nw.node x).isDepot
          · have : l.any (fun n => !(nw.node n).isDepot) = true :=
              List.any_eq_true.mpr ⟨x, hx, by simp [hd]⟩
            rw [ha] at this; cases this
          · rfl
        rw [h] at this; cases this
      · rfl
    simp [h, this]

theorem pathTrusted_some (nw : Network) (l q : List Nat) (h : pathTrusted nw l = some q) : q = l := by
  unfold pathTrusted at h
  split at h
  · cases h
  · simp only [Option.some.injEq] at h; exact h.symm

theorem slice_inv {l : List Nat} {s e : Nat} {o : List Nat} (h : slice l s e = .ok o) :
    s ≤ e ∧ e ≤ l.length ∧ o = (l.drop s).take (e - s) := by
  unfold slice at h
  split at h
  · rename_i hc
    simp only [Bool.and_eq_true, decide_eq_true_eq] at hc
    cases h
    exact ⟨hc.1, hc.2, rfl⟩
  · cases h

/-- the path the model inserts is the reference's stripped path -/
theorem plan_inv (nw : Network) (hd : C17.DepotTimes nw) (hw : NodesWF' nw) (t : Tour) (path : List Nat)
    (hc : TimeChain nw t.nodes) (hne : 0 < t.nodes.length) (pl : InsertPlan)
    (h : insertPlan nw true t path = .ok pl) :
    pl.newNodes = stripForDummy nw t.isDummy path ∧
    pl.tourNodes = (insertRef nw t.isDummy t.nodes path).1 ∧
    pl.old = (insertRef nw t.isDummy t.nodes path).2 := by
  unfold insertPlan at h
  obtain ⟨p1, hp1, h⟩ := bind_ok h
  obtain ⟨p2, hp2, h⟩ := bind_ok h
  obtain ⟨first, hfirst, h⟩ := bind_ok h
  obtain ⟨last, hlast, h⟩ := bind_ok h
  obtain ⟨se, hse, h⟩ := bind_ok h
  obtain ⟨old, hold, h⟩ := bind_ok h
  simp only [pure, Except.pure, Except.ok.injEq] at h
  -- p2 = stripForDummy
  have hstrip : p2 = stripForDummy nw t.isDummy path := by
    unfold stripForDummy
    unfold stripFirst at hp1
    unfold stripLast at hp2
    cases hdum : t.isDummy
    · simp only [hdum, Bool.false_eq_true, ↓reduceIte, Except.ok.injEq] at hp1 hp2
      subst hp1; subst hp2; simp
    · simp only [hdum, ↓reduceIte] at hp1 hp2
      simp only [Bool.not_true, Bool.false_eq_true, ↓reduceIte]
      have e1 : p1 = if (nw.node (path.headD 0)).isDepot then path.drop 1 else path := by
        cases hf : idxAt path 0 with
        | error e => simp [hf] at hp1
        | ok f =>
          obtain ⟨_, hfe⟩ := idxAt_inv hf
          rw [getD_zero_headD] at hfe
          simp only [hf] at hp1
          rw [← hfe]
          split at hp1
          · rename_i hdep
            rw [if_pos hdep]
            cases hpt : pathTrusted nw (path.drop 1) with
            | none => rw [hpt] at hp1; cases hp1
            | some q =>
              rw [hpt] at hp1
              simp only [Except.ok.injEq] at hp1
              rw [← hp1]; exact pathTrusted_some nw _ _ hpt
          · rename_i hdep
            rw [if_neg hdep]
            simp only [Except.ok.injEq] at hp1; exact hp1.symm
      rw [← e1]
      cases hl : idxAt p1 (p1.length - 1) with
      | error e => simp [hl] at hp2
      | ok l =>
        obtain ⟨_, hle⟩ := idxAt_inv hl
        rw [getD_last_getLastD] at hle
        simp only [hl] at hp2
        rw [← hle]
        split at hp2
        · rename_i hdep
          rw [if_pos hdep]
          cases hpt : pathTrusted nw (p1.take (p1.length - 1)) with
          | none => rw [hpt] at hp2; cases hp2
          | some q =>
            rw [hpt] at hp2
            simp only [Except.ok.injEq] at hp2
            rw [← hp2, pathTrusted_some nw _ _ hpt, List.dropLast_eq_take]
        · rename_i hdep
          rw [if_neg hdep]
          simp only [Except.ok.injEq] at hp2; exact hp2.symm
  obtain ⟨_, hfe⟩ := idxAt_inv hfirst
  obtain ⟨_, hle⟩ := idxAt_inv hlast
  rw [getD_zero_headD] at hfe
  rw [getD_last_getLastD] at hle
  have hpos := C12_positions nw hd hw t hc hne first last
  rw [hpos] at hse
  simp only [Except.ok.injEq] at hse
  obtain ⟨hs1, hs2, hs3⟩ := slice_inv hold
  subst h
  subst hse
  simp only at hs1 hs2 hs3 ⊢
  unfold insertRef
  simp only [← hstrip, ← hfe, ← hle]
  exact ⟨trivial, trivial, hs3⟩

/-- **C12 (insert), full strength.** Whenever the model of `Tour::insert_path` returns on a valid
    tour, the new node list and the reported dropped nodes are those of the reference semantics:
    longest prefix whose last node reaches the path, the whole path, longest suffix the path
    reaches; connectable nodes — also back-to-back ones — are never dropped. -/
theorem C12_insert (nw : Network) (hd : C17.DepotTimes nw) (hw : NodesWF' nw) (t : Tour) (path : List Nat)
    (hv : tourValidB nw t = true) (t' : Tour) (rm : Option (List Nat))
    (h : insertPath nw true t path = .ok (t', rm)) :
    insertSpecB nw t.isDummy t.nodes path t'.nodes rm = true := by
  have hc := timeChain_of_valid nw hd t hv
  have hne : 0 < t.nodes.length := by
    unfold tourValidB at hv
    split at hv
    · simp only [Bool.and_eq_true, Bool.not_eq_true', List.isEmpty_eq_false_iff] at hv
      exact List.length_pos_iff.mpr hv.1.1.1
    · simp only [Bool.and_eq_true, decide_eq_true_eq] at hv
      omega
  unfold insertPath at h
  obtain ⟨pl, hpl, h⟩ := bind_ok h
  obtain ⟨c, _, h⟩ := bind_ok h
  simp only [pure, Except.pure, Except.ok.injEq, Prod.mk.injEq] at h
  obtain ⟨ht, hr⟩ := h
  obtain ⟨_, h2, h3⟩ := plan_inv nw hd hw t path hc hne pl hpl
  unfold insertSpecB
  subst ht; subst hr
  simp only [h2, h3, beq_self_eq_true, Bool.true_and, pathTrusted_eq, beq_iff_eq]

end RSSched.C12
