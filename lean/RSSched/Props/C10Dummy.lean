/-
Props/C10Dummy: dummy tours in every reachable schedule (C10, dummy-tour clause, for the model).
A dummy tour is a non-empty list of activities in which every node ends no later than every later
node starts (`PW`, the pairwise form of the time chain the position searches rely on). Hence its
nodes are pairwise distinct. Real tours satisfy the same order (from connectability), so slices
of tours — the paths that reassignments move — do too.
-/
import RSSched.Props.C10Forms
namespace RSSched.C10D
open RSSched Schedule Network Tour Spec C15 C02 C13 C10T C10L C09C C10S C10F

/-- `a` ends no later than `b` starts -/
def Before (nw : Network) (a b : Nat) : Prop :=
  ExtTime.le (nw.node a).endT (nw.node b).startT = true

/-- pairwise time order -/
def PW (nw : Network) (l : List Nat) : Prop := l.Pairwise (Before nw)

theorem le_trans' {a b c : ExtTime} (h1 : ExtTime.le a b = true) (h2 : ExtTime.le b c = true) :
    ExtTime.le a c = true := by
  cases a <;> cases b <;> cases c <;> simp_all [ExtTime.le] <;> omega

theorem before_trans {nw : Network} (hw : NodesWF' nw) {a b c : Nat} (h1 : Before nw a b) (h2 : Before nw b c) :
    Before nw a c :=
  le_trans' (le_trans' h1 (hw b)) h2

theorem pw_sublist {nw : Network} {l l' : List Nat} (h : l'.Sublist l) (hp : PW nw l) : PW nw l' :=
  List.Pairwise.sublist h hp

/-- connectable chains are pairwise ordered in time -/
theorem pw_of_chain (nw : Network) (hd : C17.DepotTimes nw) (hw : NodesWF' nw) :
    ∀ (l : List Nat), chainB nw l = true → PW nw l
  | [], _ => List.Pairwise.nil
  | [a], _ => List.pairwise_singleton _ _
  | a :: b :: rest, h => by
    rw [chainB_cons2] at h
    simp only [Bool.and_eq_true] at h
    have ih := pw_of_chain nw hd hw (b :: rest) h.2
    have hab : Before nw a b := C17.reach_end_le_start nw hd a b h.1
    refine List.Pairwise.cons ?_ ih
    intro x hx
    rcases List.mem_cons.mp hx with e | hm
    · subst e; exact hab
    · have hbx : Before nw b x := List.rel_of_pairwise_cons ih hm
      exact before_trans hw hab hbx

/-- consecutive form (what the binary searches use) from the pairwise form -/
theorem timeChain_of_pw (nw : Network) : ∀ (l : List Nat), PW nw l → TimeChain nw l
  | [], _ => by intro i hi; simp at hi
  | [a], _ => by intro i hi; simp at hi
  | a :: b :: rest, h => by
    have ih := timeChain_of_pw nw (b :: rest) (List.Pairwise.of_cons h)
    intro i hi
    cases i with
    | zero =>
      simp only [List.getD_cons_zero, List.getD_cons_succ]
      exact List.rel_of_pairwise_cons h (by simp)
    | succ j =>
      have := ih j (by simpa using hi)
      simpa using this

theorem not_before_self {nw : Network} (hap : C12.ActPos nw) {a : Nat} (ha : (nw.node a).isDepot = false) :
    ¬ Before nw a a := by
  intro h
  have hlt := hap a (isActivity_of_not_depot ha)
  unfold Before at h
  revert h hlt
  cases (nw.node a).startT <;> cases (nw.node a).endT <;> simp [ExtTime.le, ExtTime.lt] <;> omega

/-- activities in pairwise time order are pairwise distinct -/
theorem nodup_of_pw {nw : Network} (hap : C12.ActPos nw) : ∀ {l : List Nat},
    (∀ x ∈ l, (nw.node x).isDepot = false) → PW nw l → l.Nodup
  | [], _, _ => List.nodup_nil
  | a :: rest, hact, h => by
    refine List.nodup_cons.mpr ⟨?_, nodup_of_pw hap (fun x hx => hact x (by simp [hx])) (List.Pairwise.of_cons h)⟩
    intro hm
    exact not_before_self hap (hact a (by simp)) (List.rel_of_pairwise_cons h hm)

/-- a real tour of valid shape has pairwise distinct nodes -/
theorem tourOK_nodup {nw : Network} (hd : C17.DepotTimes nw) (hw : NodesWF' nw) (hap : C12.ActPos nw)
    {t : Tour} (ht : TourOK nw t) : t.nodes.Nodup := by
  obtain ⟨sd, mid, ed, hl, hsd, hed, _, hmidnd⟩ := ht.shape
  have hpw := pw_of_chain nw hd hw t.nodes ht.chain
  rw [hl] at hpw ⊢
  have hmidpw : PW nw mid := by
    apply pw_sublist _ hpw
    exact (List.sublist_append_left mid [ed]).cons sd
  have hmidnodup := nodup_of_pw hap hmidnd hmidpw
  have hsdD : (nw.node sd).isDepot = true := by simp [Node.isDepot, hsd]
  have hedD : (nw.node ed).isDepot = true := by simp [Node.isDepot, hed]
  have hne : sd ≠ ed := by
    intro e; subst e
    unfold Node.isStartDepot at hsd; unfold Node.isEndDepot at hed
    simp only [beq_iff_eq] at hsd hed
    rw [hsd] at hed; cases hed
  refine List.nodup_cons.mpr ⟨?_, ?_⟩
  · intro hm
    rcases List.mem_append.mp hm with h1 | h1
    · have := hmidnd sd h1; rw [hsdD] at this; cases this
    · simp at h1; exact hne h1
  · rw [List.nodup_append]
    refine ⟨hmidnodup, by simp, ?_⟩
    intro a ha b hb
    simp at hb; subst hb
    intro e; subst e
    have := hmidnd a ha; rw [hedD] at this; cases this

/-! ### dummy tours -/

structure DummyOK (nw : Network) (t : Tour) : Prop where
  dummy : t.isDummy = true
  ne : t.nodes ≠ []
  acts : ∀ x ∈ t.nodes, (nw.node x).isDepot = false
  pw : PW nw t.nodes

/-- every node list of a tour (real with valid shape, or dummy) is pairwise ordered -/
theorem tourOK_pw {nw : Network} (hd : C17.DepotTimes nw) (hw : NodesWF' nw) {t : Tour} (ht : TourOK nw t) :
    PW nw t.nodes := pw_of_chain nw hd hw t.nodes ht.chain

theorem take_drop_sublist (l : List Nat) (s e : Nat) (h : s ≤ e) : (l.take s ++ l.drop e).Sublist l := by
  have h1 : l = l.take s ++ l.drop s := (List.take_append_drop s l).symm
  have h2 : (l.drop e).Sublist (l.drop s) := by
    have : l.drop e = (l.drop s).drop (e - s) := by rw [List.drop_drop]; congr 1; omega
    rw [this]; exact List.drop_sublist _ _
  conv => rhs; rw [h1]
  exact List.Sublist.append (List.Sublist.refl _) h2

theorem slice_sublist (l : List Nat) (s c : Nat) : ((l.drop s).take c).Sublist l :=
  (List.take_sublist _ _).trans (List.drop_sublist _ _)

/-- `Tour::new_dummy` of a pairwise ordered path is a valid dummy tour -/
theorem newDummy_ok {nw : Network} {path : List Nat} {dt : Tour} (hp : PW nw path)
    (h : Tour.newDummy nw path = .ok dt) : DummyOK nw dt := by
  unfold Tour.newDummy at h
  dsimp only at h
  split at h
  · cases h
  · rename_i hne
    simp only [pure, Except.pure, Except.ok.injEq] at h
    subst h
    refine ⟨rfl, ?_, ?_, ?_⟩
    · show path.filter _ ≠ []
      intro e; rw [e] at hne; simp at hne
    · intro x hx
      have := (List.mem_filter.mp hx).2
      unfold Node.isService at this
      simp only [beq_iff_eq] at this
      simp [Node.isDepot, Node.isStartDepot, Node.isEndDepot, this]
    · exact pw_sublist (List.filter_sublist) hp

/-- what `Tour::remove` leaves of a dummy tour is a valid dummy tour; the removed path is ordered -/
theorem remove_dummyOK {nw : Network} {t t' : Tour} {a b : Nat} {path : List Nat} (ht : DummyOK nw t)
    (h : Tour.remove nw t a b = .ok (some t', path)) : DummyOK nw t' := by
  obtain ⟨s, e, hchk, he, hsp, hsome, _⟩ := remove_split h
  have hn := hsome t' rfl
  have hse := C09.checkSeqRemovable_le hchk
  have hsub : (t.nodes.take s ++ t.nodes.drop (e + 1)).Sublist t.nodes :=
    take_drop_sublist _ _ _ (by omega)
  have hdum : t'.isDummy = t.isDummy ∧ t'.nodes ≠ [] := by
    unfold Tour.remove at h
    obtain ⟨_, _, h⟩ := C09.bindR_inv h
    obtain ⟨_, _, h⟩ := C09.bindR_inv h
    obtain ⟨_, _, h⟩ := C09.bindR_inv h
    obtain ⟨_, _, h⟩ := C09.bindR_inv h
    obtain ⟨_, _, h⟩ := C09.bindR_inv h
    obtain ⟨_, _, h⟩ := C09.bindR_inv h
    obtain ⟨_, _, h⟩ := C09.bindR_inv h
    obtain ⟨_, _, h⟩ := C09.bindR_inv h
    obtain ⟨_, _, h⟩ := C09.bindR_inv h
    obtain ⟨_, _, h⟩ := C09.bindR_inv h
    obtain ⟨_, _, h⟩ := C09.bindR_inv h
    obtain ⟨_, _, h⟩ := C09.bindR_inv h
    dsimp only at h
    split at h
    · split at h
      · simp [pure, Except.pure] at h
      · rename_i hcond
        simp only [pure, Except.pure, Except.ok.injEq, Prod.mk.injEq, Option.some.injEq] at h
        rw [← h.1]
        simp only [Bool.or_eq_true, List.isEmpty_iff, not_or] at hcond
        exact ⟨rfl, hcond.1⟩
    · cases h
  refine ⟨by rw [hdum.1]; exact ht.dummy, hdum.2, ?_, ?_⟩
  · rw [hn]; intro x hx; exact ht.acts x (hsub.subset hx)
  · rw [hn]; exact pw_sublist hsub ht.pw

theorem removed_pw {nw : Network} {t : Tour} {a b : Nat} {ot : Option Tour} {path : List Nat}
    (hp : PW nw t.nodes) (h : Tour.remove nw t a b = .ok (ot, path)) : PW nw path := by
  obtain ⟨s, e, _, _, hsp, _, _⟩ := remove_split h
  apply pw_sublist _ hp
  conv => rhs; rw [hsp]
  exact (List.sublist_append_right _ _).trans (List.sublist_append_left _ _)

theorem subPath_sublist {nw : Network} {t : Tour} {a b : Nat} {path : List Nat}
    (h : Tour.subPath nw t a b = .ok path) : ∃ s e, s ≤ e + 1 ∧ e + 1 ≤ t.nodes.length ∧
      path = (t.nodes.drop s).take (e + 1 - s) ∧ t.positionOf a = .ok s ∧ t.positionOf b = .ok e := by
  unfold Tour.subPath at h
  inv_do h
  all_goals (try contradiction)
  all_goals (try (cases h))
  all_goals (try (simp only [pure, Except.pure, Except.ok.injEq] at *))
  all_goals (try subst_vars)
  all_goals (
    have hs := (by assumption : t.positionOf a = .ok _)
    have he := (by assumption : t.positionOf b = .ok _)
    obtain ⟨h1, h2, hsleq⟩ := C09.slice_inv (by assumption)
    have hp := (by assumption : pathTrusted nw _ = some path)
    refine ⟨_, _, h1, h2, ?_, hs, he⟩
    rw [← hsleq]
    unfold pathTrusted at hp
    split at hp
    · cases hp
    · simpa using hp.symm)

/-! ### inserting into a dummy tour -/

theorem mem_take_before {nw : Network} {l : List Nat} {k a : Nat} (hp : PW nw l) (hk : k ≤ l.length)
    (hk0 : 0 < k) (ha : a ∈ l.take k) : a = l.getD (k - 1) 0 ∨ Before nw a (l.getD (k - 1) 0) := by
  obtain ⟨i, hi, rfl⟩ := List.mem_iff_getElem.mp ha
  simp only [List.length_take] at hi
  have hik : i < k := by omega
  have hil : i < l.length := by omega
  have hgd : l.getD (k - 1) 0 = l[k - 1]'(by omega) := by
    rw [List.getD_eq_getElem?_getD, List.getElem?_eq_getElem (by omega)]; rfl
  rw [hgd, List.getElem_take]
  by_cases e : i = k - 1
  · left; subst e; rfl
  · right
    exact (List.pairwise_iff_getElem.mp hp) i (k - 1) hil (by omega) (by omega)

theorem mem_drop_after {nw : Network} {l : List Nat} {m b : Nat} (hp : PW nw l) (hm : m < l.length)
    (hb : b ∈ l.drop m) : b = l.getD m 0 ∨ Before nw (l.getD m 0) b := by
  obtain ⟨j, hj, rfl⟩ := List.mem_iff_getElem.mp hb
  simp only [List.length_drop] at hj
  have hgd : l.getD m 0 = l[m]'hm := by
    rw [List.getD_eq_getElem?_getD, List.getElem?_eq_getElem hm]; rfl
  rw [hgd, List.getElem_drop]
  by_cases e : j = 0
  · left; subst e; rfl
  · right
    exact (List.pairwise_iff_getElem.mp hp) m (m + j) hm (by omega) (by omega)

theorem mem_head_before {nw : Network} {p : List Nat} {a : Nat} (hp : PW nw p) (ha : a ∈ p) :
    a = p.headD 0 ∨ Before nw (p.headD 0) a := by
  cases p with
  | nil => cases ha
  | cons x xs =>
    rcases List.mem_cons.mp ha with e | hm
    · left; exact e
    · right; exact List.rel_of_pairwise_cons hp hm

theorem mem_last_after {nw : Network} {p : List Nat} {a : Nat} (hp : PW nw p) (ha : a ∈ p) :
    a = p.getLastD 0 ∨ Before nw a (p.getLastD 0) := by
  rcases List.eq_nil_or_concat p with h | ⟨q, z, h⟩
  · subst h; cases ha
  · have h : p = q ++ [z] := by rw [h]; simp
    have hz : p.getLastD 0 = z := by rw [h]; simp [List.getLastD_eq_getLast?]
    rw [hz]
    have hp' : PW nw (q ++ [z]) := by rw [← h]; exact hp
    have ha' : a ∈ q ++ [z] := by rw [← h]; exact ha
    rcases List.mem_append.mp ha' with hq | hz'
    · right
      exact (List.pairwise_append.mp hp').2.2 a hq z (by simp)
    · left; simpa using hz'

theorem stripForDummy_sublist (nw : Network) (path : List Nat) : (stripForDummy nw true path).Sublist path := by
  unfold stripForDummy
  simp only [Bool.not_true, Bool.false_eq_true, ↓reduceIte]
  split
  · split
    · exact (List.dropLast_sublist _).trans (List.drop_sublist _ _)
    · exact List.drop_sublist _ _
  · split
    · exact List.dropLast_sublist _
    · exact List.Sublist.refl _

/-- `Tour::insert_path` into a valid dummy tour gives a valid dummy tour, when the inserted path is
    pairwise ordered and, after dropping a leading/trailing depot, consists of activities -/
theorem insert_dummyOK (nw : Network) (hd : C17.DepotTimes nw) (hw : NodesWF' nw) (hap : C12.ActPos nw)
    (t t' : Tour) (path : List Nat) (rm : Option (List Nat)) (ht : DummyOK nw t) (hpw : PW nw path)
    (hstrip : ∀ x ∈ stripForDummy nw true path, (nw.node x).isDepot = false)
    (h : insertPath nw true t path = .ok (t', rm)) : DummyOK nw t' := by
  have hc := timeChain_of_pw nw t.nodes ht.pw
  have hne : 0 < t.nodes.length := List.length_pos_iff.mpr ht.ne
  unfold insertPath at h
  obtain ⟨pl, hpl, h⟩ := C12.bind_ok h
  obtain ⟨c, _, h⟩ := C12.bind_ok h
  simp only [pure, Except.pure, Except.ok.injEq, Prod.mk.injEq] at h
  obtain ⟨ht', _⟩ := h
  obtain ⟨h1, h2, _⟩ := C12.plan_inv nw hd hw t path hc hne pl hpl
  rw [ht.dummy] at h1 h2
  -- the stripped path is not empty
  have hpne : stripForDummy nw true path ≠ [] := by
    unfold insertPlan at hpl
    obtain ⟨p1, _, hpl⟩ := C12.bind_ok hpl
    obtain ⟨p2, _, hpl⟩ := C12.bind_ok hpl
    obtain ⟨first, hfirst, hpl⟩ := C12.bind_ok hpl
    obtain ⟨last, _, hpl⟩ := C12.bind_ok hpl
    obtain ⟨se, _, hpl⟩ := C12.bind_ok hpl
    obtain ⟨old, _, hpl⟩ := C12.bind_ok hpl
    simp only [pure, Except.pure, Except.ok.injEq] at hpl
    rw [← hpl] at h1
    simp only at h1
    rw [← h1]
    intro e; rw [e] at hfirst; simp [idxAt] at hfirst
  have hnodes : t'.nodes = (insertRef nw true t.nodes path).1 := by rw [← ht']; exact h2
  have hdum : t'.isDummy = true := by rw [← ht']; exact ht.dummy
  generalize hp' : stripForDummy nw true path = p' at *
  have hp'pw : PW nw p' := by rw [← hp']; exact pw_sublist (stripForDummy_sublist nw path) hpw
  have hfirst_mem : p'.headD 0 ∈ p' := by
    cases p' with
    | nil => exact absurd rfl hpne
    | cons a as => simp
  have hlast_mem : p'.getLastD 0 ∈ p' := by
    rcases List.eq_nil_or_concat p' with h | ⟨q, z, h⟩
    · exact absurd h hpne
    · have h : p' = q ++ [z] := by rw [h]; simp
      rw [h]; simp [List.getLastD_eq_getLast?]
  have hfnd := hstrip _ hfirst_mem
  have hlnd := hstrip _ hlast_mem
  have hres : (insertRef nw true t.nodes path).1 =
      t.nodes.take (keepPrefixLen nw t.nodes (p'.headD 0)) ++ p' ++ t.nodes.drop (keepSuffixStart nw t.nodes (p'.getLastD 0)) := by
    unfold insertRef
    simp only [hp', hfnd, hlnd, Bool.false_eq_true, ↓reduceIte]
  rw [hres] at hnodes
  generalize hk : keepPrefixLen nw t.nodes (p'.headD 0) = k at *
  generalize hm : keepSuffixStart nw t.nodes (p'.getLastD 0) = m at *
  have hkle : k ≤ t.nodes.length := by rw [← hk]; exact lastTrueLen_le _ _
  -- first ends before last ends
  have hfl : ExtTime.le (nw.node (p'.headD 0)).endT (nw.node (p'.getLastD 0)).endT = true := by
    rcases mem_head_before hp'pw hlast_mem with e | hb
    · rw [← e]; exact ExtTime.le_refl' _
    · exact le_trans' hb (hw _)
  have hkm : k ≤ m := by
    rw [← hk, ← hm]
    exact C12.C12_positions_ordered nw hd hw hap t.nodes hc _ _ hfl (isActivity_of_not_depot hlnd)
  refine ⟨hdum, ?_, ?_, ?_⟩
  · rw [hnodes]; intro e
    have := congrArg List.length e
    simp only [List.length_append, List.length_nil] at this
    have : p'.length = 0 := by omega
    exact hpne (List.length_eq_zero_iff.mp this)
  · rw [hnodes]; intro x hx
    rcases List.mem_append.mp hx with hx | hx
    · rcases List.mem_append.mp hx with hx | hx
      · exact ht.acts x (List.mem_of_mem_take hx)
      · exact hstrip x hx
    · exact ht.acts x (List.mem_of_mem_drop hx)
  · rw [hnodes]
    unfold PW
    rw [List.pairwise_append, List.pairwise_append]
    refine ⟨⟨pw_sublist (List.take_sublist _ _) ht.pw, hp'pw, ?_⟩, pw_sublist (List.drop_sublist _ _) ht.pw, ?_⟩
    · -- prefix before the path
      intro a ha b hb
      have hk0 : 0 < k := by
        cases k with
        | zero => simp at ha
        | succ _ => omega
      have hreach : nw.canReach (t.nodes.getD (k - 1) 0) (p'.headD 0) = true := by
        have := lastTrueLen_true (reachesAt nw t.nodes (p'.headD 0)) t.nodes.length (by unfold keepPrefixLen at hk; omega)
        unfold keepPrefixLen at hk
        rw [hk] at this
        exact this
      have hB : Before nw (t.nodes.getD (k - 1) 0) (p'.headD 0) := C17.reach_end_le_start nw hd _ _ hreach
      have h1 : Before nw a (p'.headD 0) := by
        rcases mem_take_before ht.pw hkle hk0 ha with e | hb'
        · rw [e]; exact hB
        · exact before_trans hw hb' hB
      rcases mem_head_before hp'pw hb with e | hb'
      · rw [e]; exact h1
      · exact before_trans hw h1 hb'
    · -- prefix and path before the suffix
      intro a ha b hb
      have hmlt : m < t.nodes.length := by
        by_cases hlt : m < t.nodes.length
        · exact hlt
        · rw [List.drop_eq_nil_of_le (by omega)] at hb; cases hb
      have hreach : nw.canReach (p'.getLastD 0) (t.nodes.getD m 0) = true := by
        have := firstTrueFrom_true (reachedAt nw t.nodes (p'.getLastD 0)) t.nodes.length 0
          (by unfold keepSuffixStart at hm; omega)
        unfold keepSuffixStart at hm
        rw [hm] at this
        exact this
      have hB : Before nw (p'.getLastD 0) (t.nodes.getD m 0) := C17.reach_end_le_start nw hd _ _ hreach
      rcases List.mem_append.mp ha with ha | ha
      · -- a in the prefix, b in the suffix: both in the old tour, in this order
        have hsub := take_drop_sublist t.nodes k m hkm
        have := pw_sublist hsub ht.pw
        exact (List.pairwise_append.mp this).2.2 a ha b hb
      · have h1 : Before nw a (t.nodes.getD m 0) := by
          rcases mem_last_after hp'pw ha with e | hb'
          · rw [e]; exact hB
          · exact before_trans hw hb' hB
        rcases mem_drop_after ht.pw hmlt hb with e | hb'
        · rw [e]; exact h1
        · exact before_trans hw h1 hb'

/-! ### paths cut out of tours: depots only at the ends -/

/-- interior nodes of the path are activities -/
def InnerAct (nw : Network) (path : List Nat) : Prop :=
  ∀ h mid l, path = h :: (mid ++ [l]) → ∀ x ∈ mid, (nw.node x).isDepot = false

theorem getLast?_cas (h : Nat) (mid : List Nat) (l : Nat) : (h :: (mid ++ [l])).getLast? = some l := by
  induction mid generalizing h with
  | nil => simp
  | cons a as ih => rw [List.cons_append, List.getLast?_cons_cons]; exact ih a

theorem dropLast_cas (h : Nat) (mid : List Nat) (l : Nat) : (h :: (mid ++ [l])).dropLast = h :: mid := by
  induction mid generalizing h with
  | nil => simp
  | cons a as ih => rw [List.cons_append, List.dropLast_cons_cons, ih a]

theorem strip_nodepot {nw : Network} {path : List Nat} (hin : InnerAct nw path) :
    ∀ x ∈ stripForDummy nw true path, (nw.node x).isDepot = false := by
  intro x hx
  cases path with
  | nil => unfold stripForDummy at hx; simp at hx
  | cons h rest =>
    rcases List.eq_nil_or_concat rest with hr | ⟨mid, l, hr⟩
    · subst hr
      unfold stripForDummy at hx
      by_cases hd : (nw.node h).isDepot = true
      · simp [hd] at hx
      · have hd' : (nw.node h).isDepot = false := by simpa using hd
        simp [hd'] at hx
        rw [hx]; exact hd'
    · have hr : rest = mid ++ [l] := by rw [hr]; simp
      subst hr
      have hmid := hin h mid l rfl
      unfold stripForDummy at hx
      by_cases hd : (nw.node h).isDepot = true
      · by_cases hdl : (nw.node l).isDepot = true
        · simp [hd, hdl] at hx
          exact hmid x hx
        · have hdl' : (nw.node l).isDepot = false := by simpa using hdl
          simp [hd, hdl'] at hx
          rcases hx with hx | rfl
          · exact hmid x hx
          · exact hdl'
      · have hd' : (nw.node h).isDepot = false := by simpa using hd
        by_cases hdl : (nw.node l).isDepot = true
        · simp [hd', getLast?_cas, dropLast_cas, hdl] at hx
          rcases hx with rfl | hx
          · exact hd'
          · exact hmid x hx
        · have hdl' : (nw.node l).isDepot = false := by simpa using hdl
          simp [hd', getLast?_cas, hdl'] at hx
          rcases hx with rfl | hx | rfl
          · exact hd'
          · exact hmid x hx
          · exact hdl'

theorem innerAct_of_acts {nw : Network} {path : List Nat} (h : ∀ x ∈ path, (nw.node x).isDepot = false) :
    InnerAct nw path := by
  intro hd mid l e x hx
  exact h x (by rw [e]; simp [hx])

theorem first_not_inner {f : Nat} {T A M B : List Nat} {h l : Nat} (hn : (f :: T).Nodup)
    (e : f :: T = A ++ (h :: (M ++ [l])) ++ B) : ∀ x ∈ M, x ≠ f := by
  intro x hx hxf
  have hxT : x ∈ T := by
    cases A with
    | nil =>
      simp only [List.nil_append, List.cons_append, List.cons.injEq] at e
      rw [e.2]; simp [hx]
    | cons a0 A' =>
      simp only [List.cons_append, List.cons.injEq] at e
      rw [e.2]; simp [hx]
  rw [hxf] at hxT
  exact (List.nodup_cons.mp hn).1 hxT

/-- a contiguous piece of a valid real tour has depots only at its ends -/
theorem innerAct_of_contig {nw : Network} (hd : C17.DepotTimes nw) (hw : NodesWF' nw) (hap : C12.ActPos nw)
    {t : Tour} (ht : TourOK nw t) {A path B : List Nat} (e : t.nodes = A ++ path ++ B) : InnerAct nw path := by
  intro h M l hp x hx
  have hnd := tourOK_nodup hd hw hap ht
  obtain ⟨sd, mid, ed, hl, hsd, hed, _, hmidnd⟩ := ht.shape
  subst hp
  have hxn : x ∈ t.nodes := by rw [e]; simp [hx]
  rw [hl] at hxn hnd e
  have h1 : x ≠ sd := first_not_inner hnd e x hx
  have h2 : x ≠ ed := by
    have hrev : (sd :: (mid ++ [ed])).reverse = ed :: (mid.reverse ++ [sd]) := by simp
    have hnd' : (ed :: (mid.reverse ++ [sd])).Nodup := by rw [← hrev]; exact ((List.reverse_perm _).nodup_iff).mpr hnd
    have e' : ed :: (mid.reverse ++ [sd]) = B.reverse ++ (l :: (M.reverse ++ [h])) ++ A.reverse := by
      rw [← hrev, e]; simp
    exact first_not_inner hnd' e' x (by simpa using hx)
  simp only [List.mem_cons, List.mem_append, List.not_mem_nil, or_false] at hxn
  rcases hxn with hxn | hxn | hxn
  · exact absurd hxn h1
  · exact hmidnd x hxn
  · exact absurd hxn h2

end RSSched.C10D
