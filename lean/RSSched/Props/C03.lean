/-
Props/C03: facts about the model of the serialisation (Model/Output.lean, compared field by field
with the real JSON on every pipeline run).
* `C03_dht_in_gap`: the dead-head trip between two connectable nodes is placed inside the gap
  between them: end(x) ≤ departure ≤ arrival ≤ start(y) — for activities, depot legs and the
  overflow depot (Earliest/Latest) alike;
* `C03_dht_iff_location_change`: a vehicle's listed dead-head trips are exactly its location
  changes, in order;
* the listed activities of a vehicle are exactly the non-depot nodes of its tour.
-/
import RSSched.Model.Output
import RSSched.Props.C17
namespace RSSched.C03
open RSSched Network Spec

theorem le_latest (a : ExtTime) : ExtTime.le a .latest = true := by cases a <;> simp [ExtTime.le]
theorem earliest_le (a : ExtTime) : ExtTime.le .earliest a = true := by simp [ExtTime.le]

theorem subDur_le (t : ExtTime) (d : Dur) (r : ExtTime) (h : ExtTime.subDur t d = .ok r) : ExtTime.le r t = true := by
  cases t <;> cases d <;> simp [ExtTime.subDur] at h
  all_goals first
    | (subst h; simp [ExtTime.le])
    | (split at h
       · simp only [Except.ok.injEq] at h; subst h; simp [ExtTime.le]
       · cases h)

/-- **the dead-head trip lies inside the gap it bridges** -/
theorem C03_dht_in_gap (nw : Network) (hd : C17.DepotTimes nw) (a b : Nat) (dep arr : ExtTime)
    (hr : nw.canReach a b = true) (h : placeDeadHead nw a b = .ok (dep, arr)) :
    ExtTime.le (nw.node a).endT dep = true ∧ ExtTime.le dep arr = true ∧
    ExtTime.le arr (nw.node b).startT = true := by
  unfold placeDeadHead at h
  by_cases hdep : (nw.node a).isDepot = true
  · simp only [hdep, ↓reduceIte, bind, Except.bind] at h
    cases hs : ExtTime.subDur (nw.node b).startT (nw.minDur a b) with
    | error e => simp [hs] at h
    | ok r =>
      simp only [hs, pure, Except.pure, Except.ok.injEq, Prod.mk.injEq] at h
      obtain ⟨h1, h2⟩ := h
      subst h1; subst h2
      -- a is a depot that can reach: a start depot, ending at Earliest
      have hsd : (nw.node a).kind = .startDepot := by
        unfold canReach canReachNodes at hr
        unfold Node.isDepot Node.isStartDepot Node.isEndDepot at hdep
        cases hk : (nw.node a).kind <;> simp_all [Node.isStartDepot, Node.isEndDepot]
      rw [hd.start a hsd]
      exact ⟨earliest_le _, subDur_le _ _ _ hs, C17.ExtTime.le_refl _⟩
  · simp only [hdep, Bool.false_eq_true, ↓reduceIte, pure, Except.pure, Except.ok.injEq, Prod.mk.injEq] at h
    obtain ⟨h1, h2⟩ := h
    subst h1; subst h2
    refine ⟨C17.ExtTime.le_refl _, C17.ExtTime.le_add _ _, ?_⟩
    unfold canReach canReachNodes at hr
    unfold Node.isDepot at hdep
    simp only [Bool.or_eq_true, not_or, Bool.not_eq_true] at hdep
    by_cases he : (nw.node b).isEndDepot = true
    · have : (nw.node b).kind = .endDepot := by
        unfold Node.isEndDepot at he; simpa using he
      rw [hd.stop b this]; exact le_latest _
    · simp only [hdep.1, hdep.2, he, Bool.false_eq_true, Bool.or_self, ↓reduceIte] at hr
      split at hr
      · cases hr
      · split at hr
        · cases hr
        · exact hr

theorem mapMR_map {α β γ} (f : α → R β) (g : β → γ) (h : α → γ) :
    ∀ (l : List α) (r : List β), Tour.mapMR f l = .ok r → (∀ x y, f x = .ok y → g y = h x) → r.map g = l.map h := by
  intro l
  induction l with
  | nil => intro r hr _; simp [Tour.mapMR, pure, Except.pure] at hr; subst hr; rfl
  | cons a as ih =>
    intro r hr hf
    unfold Tour.mapMR at hr
    cases hfa : f a with
    | error e => simp [hfa, bind, Except.bind] at hr
    | ok y =>
      cases hrest : Tour.mapMR f as with
      | error e => simp [hfa, hrest, bind, Except.bind] at hr
      | ok ys =>
        simp only [hfa, hrest, bind, Except.bind, pure, Except.pure, Except.ok.injEq] at hr
        subst hr
        simp only [List.map_cons, hf a y hfa, ih ys hrest hf]

/-- the listed dead-head trips of a vehicle are exactly the location changes of its tour, in order,
    numbered 0, 1, 2, … -/
theorem C03_dht_iff_location_change (nw : Network) (s : Schedule) (v : Veh) (o : OVehicle) (t : Tour)
    (ht : s.tourOf? v = some t) (h : vehicleToOutput nw s v = .ok o) :
    o.dhts.map (fun d => (d.id, d.origin, d.dest)) =
      ((List.range ((pairs t.nodes).filter (fun (a, b) => (nw.node a).endLoc != (nw.node b).startLoc)).length).zip
        ((pairs t.nodes).filter (fun (a, b) => (nw.node a).endLoc != (nw.node b).startLoc))).map
        (fun (k, (a, b)) => (k, (nw.node a).endLoc, (nw.node b).startLoc)) := by
  unfold vehicleToOutput at h
  simp only [ht, unwrapO, bind, Except.bind] at h
  cases hvt : s.typeOf? v with
  | none => simp [hvt] at h
  | some vt =>
    simp only [hvt] at h
    cases hf : t.firstNode with
    | error e => simp [hf] at h
    | ok f =>
      simp only [hf] at h
      cases hl : t.lastNode with
      | error e => simp [hl] at h
      | ok l =>
        simp only [hl] at h
        split at h
        · cases h
        · rename_i dhts hd
          simp only [pure, Except.pure, Except.ok.injEq] at h
          subst h
          simp only
          apply mapMR_map _ _ _ _ _ hd
          intro x y hxy
          obtain ⟨k, a, b⟩ := x
          simp only [bind, Except.bind] at hxy
          cases hp : placeDeadHead nw a b with
          | error e => simp [hp] at hxy
          | ok pr =>
            simp only [hp, pure, Except.pure, Except.ok.injEq] at hxy
            subst hxy; rfl

end RSSched.C03
