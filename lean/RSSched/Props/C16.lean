/-
Props/C16: the returned schedule is the product of all pipeline stages.
-/
import RSSched.Model.Pipeline
namespace RSSched.C16
open RSSched

/-- the answer is the serialisation of: start solution, improved by the local search (when there
    are maintenance slots), carrying the optimiser's transitions, end depots then aligned -/
theorem C16_wiring {I S T O} (p : PipelineStages I S T O) (i : I) :
    let tr := solveTrace p false i
    tr.out = p.output tr.final ∧
    tr.final = p.alignEndDepots tr.withTransitions ∧
    tr.withTransitions = p.setTransitions tr.afterSearch tr.optimised ∧
    tr.optimised = p.optimise tr.afterSearch ∧
    tr.afterSearch = (if p.maintenance i then p.localSearch tr.start else tr.start) ∧
    tr.start = p.improveDepots (p.mcf i) := by
  simp [solveTrace]

/-- no stage's result is discarded: if the alignment preserves what the optimiser chose (as
    `cycles`), the final schedule carries exactly the optimiser's choice -/
theorem C16_carries_optimised {I S T O C} (p : PipelineStages I S T O) (i : I)
    (cycles : S → C) (chosen : T → C)
    (hset : ∀ s t, cycles (p.setTransitions s t) = chosen t)
    (halign : ∀ s, cycles (p.alignEndDepots s) = cycles s) :
    cycles (solveTrace p false i).final = chosen (solveTrace p false i).optimised := by
  simp [solveTrace, halign, hset]

/-- F6: the pinned wiring loses the optimiser's result — a concrete instance of the stages where
    the repaired pipeline reports the optimised cycles and the pinned one the stale ones -/
def demo : PipelineStages Unit (Nat × Nat) Nat (Nat × Nat) :=
  { mcf := fun _ => (0, 7), improveDepots := id, maintenance := fun _ => true,
    localSearch := fun s => (s.1 + 1, s.2), optimise := fun _ => 42,
    setTransitions := fun s t => (s.1, t), alignEndDepots := id, output := id }

theorem F6_pinned_discards_optimised :
    (solveTrace demo false ()).out = (1, 42) ∧ (solveTrace demo true ()).out = (1, 7) := by
  decide

end RSSched.C16
