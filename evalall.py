#!/usr/bin/env python3
"""evalall.py [tier]: regression over all seeded changes: apply each to /repo, run the quick check of
its own property, undo; prints which were caught. Writes seeded/REGRESSION.txt."""
import json, os, subprocess, sys, glob
tier = sys.argv[1] if len(sys.argv) > 1 else "quick"
# evalall.py quick --skip C06 : leave out a property's changes (the C06 family makes runs time out, 30 s per case)
skip = sys.argv[sys.argv.index("--skip") + 1].split(",") if "--skip" in sys.argv else []
only = sys.argv[sys.argv.index("--only") + 1].split(",") if "--only" in sys.argv else []
rows = []
for d in sorted(glob.glob("/verif/seeded/C*-*")):
    meta = json.load(open(os.path.join(d, "meta.json")))
    prop = meta["property"]
    if prop in skip or (only and prop not in only):
        continue
    assert subprocess.run(["git", "-C", "/repo", "diff", "--quiet"]).returncode == 0, "/repo dirty"
    subprocess.run(["git", "-C", "/repo", "apply", os.path.join(d, "patch.diff")], check=True)
    try:
        r = subprocess.run(["/verif/check", prop, "--tier", tier], capture_output=True, text=True)
    finally:
        subprocess.run(["git", "-C", "/repo", "checkout", "--", "."], check=True)
    viol = [l for l in r.stdout.splitlines() if l.startswith("VIOLATION")]
    det = [l.strip() for l in r.stdout.splitlines() if l.strip().startswith("detail:")]
    rows.append((os.path.basename(d), prop, r.returncode, len(viol), det[0][:110] if det else ""))
    print(rows[-1], flush=True)
subprocess.run(["rm", "-rf", "/verif/replays"])
with open("/verif/seeded/REGRESSION.txt", "w") as fh:
    fh.write("seeded change | property | check exit | VIOLATION lines | first detail   (tier %s%s%s)\n" % (tier, " skipped: " + ",".join(skip) if skip else "", " only: " + ",".join(only) if only else ""))
    for r in rows:
        fh.write(" | ".join(str(x) for x in r) + "\n")
missed = [r[0] for r in rows if r[2] == 0]
print("missed:", missed)
