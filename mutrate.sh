#!/bin/bash
# mutrate.sh <patch.diff> <scope> <n> <tier> [clause-regex] : detection rate of a seeded change in one scope.
# Applies the change to /repo, rebuilds the harness, generates n cases, counts the cases with a FAIL line, undoes it.
patch=$1; scope=$2; n=$3; tier=$4; re=${5:-.}
out=$(mktemp -d /tmp/mutrate.XXXX)
git -C /repo diff --quiet || { echo "/repo dirty"; exit 2; }
git -C /repo apply "$patch" || exit 2
(cd /verif/harness && CARGO_NET_OFFLINE=true cargo build --release --offline >/dev/null 2>&1)
for j in $(seq 0 15); do
  /verif/harness/target/release/rsv gen $scope --seed ${SEED:-20260929} --first $((j * n / 16)) --n $((n / 16)) --out $out --tier $tier >/dev/null 2>&1 &
done; wait
git -C /repo checkout -- .
(cd /verif/harness && CARGO_NET_OFFLINE=true cargo build --release --offline >/dev/null 2>&1)
ls $out/*.case | xargs -n 64 /verif/lean/.lake/build/bin/rsmodel 2>&1 | awk '/^CASE/{c=$2} /^FAIL/{print c, $3}' | grep -E "$re" | sort -u > $out.fails
echo "cases=$(ls $out/*.case | wc -l) failing-cases=$(cut -d' ' -f1 $out.fails | sort -u | wc -l)"
cut -d' ' -f2 $out.fails | sort | uniq -c | sort -rn | head -5
rm -rf $out $out.fails
