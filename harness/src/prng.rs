//! SplitMix64: the single source of randomness; every case derives its state from
//! (VERIF_SEED, scope, case number) so that a disagreement replays exactly.
#[derive(Clone)]
pub struct Rng(pub u64);

impl Rng {
    pub fn new(seed: u64) -> Rng {
        Rng(seed)
    }
    pub fn derive(seed: u64, scope: &str, case: u64) -> Rng {
        let mut h: u64 = seed ^ 0x9E37_79B9_7F4A_7C15;
        for b in scope.bytes() {
            h = (h ^ b as u64).wrapping_mul(0x100_0000_01B3);
        }
        let mut r = Rng(h ^ case.wrapping_mul(0xD6E8_FEB8_6659_FD93));
        r.next();
        r
    }
    pub fn next(&mut self) -> u64 {
        self.0 = self.0.wrapping_add(0x9E37_79B9_7F4A_7C15);
        let mut z = self.0;
        z = (z ^ (z >> 30)).wrapping_mul(0xBF58_476D_1CE4_E5B9);
        z = (z ^ (z >> 27)).wrapping_mul(0x94D0_49BB_1331_11EB);
        z ^ (z >> 31)
    }
    /// uniform in 0..n (n > 0)
    pub fn below(&mut self, n: u64) -> u64 {
        self.next() % n
    }
    pub fn range(&mut self, lo: u64, hi_incl: u64) -> u64 {
        lo + self.below(hi_incl - lo + 1)
    }
    pub fn chance(&mut self, percent: u64) -> bool {
        self.below(100) < percent
    }
    pub fn pick<'a, T>(&mut self, xs: &'a [T]) -> &'a T {
        &xs[self.below(xs.len() as u64) as usize]
    }
    pub fn shuffle<T>(&mut self, xs: &mut [T]) {
        for i in (1..xs.len()).rev() {
            let j = self.below(i as u64 + 1) as usize;
            xs.swap(i, j);
        }
    }
}
