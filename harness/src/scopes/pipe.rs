//! scope `pipe` (C01–C07, C16, C08 along the pipeline): the real `server::solve_instance` in a
//! child process (a hang cannot be caught in-process), in the optimised build and in the build
//! with arithmetic checks; stage snapshots and accepted local-search steps through the hooks; the
//! returned JSON flattened to lines with ids mapped back to positions.
use crate::ctx::{guarded, list_tok, Ctx};
use crate::inst::{iso_to_secs, Inst};
use serde_json::Value;
use std::fmt::Write;
use std::process::{Command, Stdio};
use std::time::{Duration, Instant};

fn time_or_ext(s: &str) -> String {
    match s {
        "EARLIEST" => "E".to_string(),
        "LATEST" => "L".to_string(),
        _ => iso_to_secs(s).map(|x| x.to_string()).unwrap_or_else(|_| format!("?{}", s)),
    }
}

struct Ids<'a> {
    ctx: &'a Ctx,
}
impl<'a> Ids<'a> {
    fn loc(&self, s: &str) -> String {
        if s == "NOWHERE" {
            return "N".to_string();
        }
        for l in 0..self.ctx.inst.nlocs {
            if self.ctx.inst.loc_id(l) == s {
                return l.to_string();
            }
        }
        format!("?{}", s)
    }
    fn vt(&self, s: &str) -> String {
        for t in 0..self.ctx.ntypes() {
            if self.ctx.inst.vt_id(t) == s {
                return t.to_string();
            }
        }
        format!("?{}", s)
    }
    fn depot(&self, s: &str) -> String {
        for d in self.ctx.nw.depots_iter() {
            if self.ctx.nw.get_depot(d).id() == s {
                return d.0.to_string();
            }
        }
        format!("?{}", s)
    }
    fn node(&self, s: &str) -> String {
        for (k, n) in self.ctx.nodes.iter().enumerate() {
            if self.ctx.nw.node(*n).id() == s {
                return k.to_string();
            }
        }
        format!("?{}", s)
    }
    fn veh(&self, s: &str) -> String {
        if let Some(x) = s.strip_prefix("veh_") {
            format!("v{}", x)
        } else if let Some(x) = s.strip_prefix("dummy_") {
            format!("u{}", x)
        } else {
            format!("?{}", s)
        }
    }
}

fn st(v: &Value) -> &str {
    v.as_str().unwrap_or("?")
}

/// the returned JSON as `J …` lines
pub fn flatten_output(ctx: &Ctx, out: &Value) -> String {
    let ids = Ids { ctx };
    let mut s = String::new();
    let obj = &out["objectiveValue"];
    writeln!(
        s,
        "J obj {} {} {} {}",
        obj["unservedPassengers"], obj["maintenanceViolation"], obj["vehicleCount"], obj["costs"]
    )
    .unwrap();
    let sch = &out["schedule"];
    for dl in sch["depotLoads"].as_array().unwrap_or(&vec![]) {
        for l in dl["load"].as_array().unwrap_or(&vec![]) {
            writeln!(s, "J depotload {} {} {}", ids.depot(st(&dl["depot"])), ids.vt(st(&l["vehicleType"])), l["spawnCount"]).unwrap();
        }
    }
    for fleet in sch["fleet"].as_array().unwrap_or(&vec![]) {
        let vt = ids.vt(st(&fleet["vehicleType"]));
        writeln!(s, "J fleet {}", vt).unwrap();
        for v in fleet["vehicles"].as_array().unwrap_or(&vec![]) {
            let id = ids.veh(st(&v["id"]));
            writeln!(s, "J vehicle {} {} {} {}", id, vt, ids.depot(st(&v["startDepot"])), ids.depot(st(&v["endDepot"]))).unwrap();
            for a in v["departureSegments"].as_array().unwrap_or(&vec![]) {
                writeln!(
                    s,
                    "J vact {} seg {} {} {} {} {}",
                    id,
                    ids.node(st(&a["departureSegment"])),
                    ids.loc(st(&a["origin"])),
                    ids.loc(st(&a["destination"])),
                    time_or_ext(st(&a["departure"])),
                    time_or_ext(st(&a["arrival"]))
                )
                .unwrap();
            }
            for a in v["maintenanceSlots"].as_array().unwrap_or(&vec![]) {
                writeln!(
                    s,
                    "J vact {} maint {} {} {} {} {}",
                    id,
                    ids.node(st(&a["maintenanceSlot"])),
                    ids.loc(st(&a["location"])),
                    ids.loc(st(&a["location"])),
                    time_or_ext(st(&a["start"])),
                    time_or_ext(st(&a["end"]))
                )
                .unwrap();
            }
            for a in v["deadHeadTrips"].as_array().unwrap_or(&vec![]) {
                writeln!(
                    s,
                    "J vact {} dht {} {} {} {} {}",
                    id,
                    st(&a["id"]).trim_start_matches("dht_"),
                    ids.loc(st(&a["origin"])),
                    ids.loc(st(&a["destination"])),
                    time_or_ext(st(&a["departure"])),
                    time_or_ext(st(&a["arrival"]))
                )
                .unwrap();
            }
        }
        for c in fleet["vehicleCycles"].as_array().unwrap_or(&vec![]) {
            writeln!(s, "J cycle {} : {}", vt, list_tok(c.as_array().unwrap().iter().map(|x| ids.veh(st(x))))).unwrap();
        }
    }
    for a in sch["departureSegments"].as_array().unwrap_or(&vec![]) {
        writeln!(
            s,
            "J seg {} {} {} {} {} {} : {}",
            ids.node(st(&a["departureSegment"])),
            ids.loc(st(&a["origin"])),
            ids.loc(st(&a["destination"])),
            time_or_ext(st(&a["departure"])),
            time_or_ext(st(&a["arrival"])),
            ids.vt(st(&a["vehicleType"])),
            list_tok(a["formation"].as_array().unwrap().iter().map(|x| ids.veh(st(x))))
        )
        .unwrap();
    }
    for a in sch["maintenanceSlots"].as_array().unwrap_or(&vec![]) {
        writeln!(
            s,
            "J slot {} {} {} {} : {}",
            ids.node(st(&a["maintenanceSlot"])),
            ids.loc(st(&a["location"])),
            time_or_ext(st(&a["start"])),
            time_or_ext(st(&a["end"])),
            list_tok(a["formation"].as_array().unwrap().iter().map(|x| ids.veh(st(x))))
        )
        .unwrap();
    }
    for a in sch["deadHeadTrips"].as_array().unwrap_or(&vec![]) {
        writeln!(
            s,
            "J dht {} {} {} {} {} : {}",
            st(&a["id"]).trim_start_matches("dht_"),
            ids.loc(st(&a["origin"])),
            ids.loc(st(&a["destination"])),
            time_or_ext(st(&a["departure"])),
            time_or_ext(st(&a["arrival"])),
            list_tok(a["formation"].as_array().unwrap().iter().map(|x| ids.veh(st(x))))
        )
        .unwrap();
    }
    s
}

/// child process: solve the instance of the case file, write observations to `out`
pub fn child(case_file: &str, out: &str) {
    let text = std::fs::read_to_string(case_file).unwrap();
    let inst = Inst::from_text(&text);
    let json = inst.to_json();
    // process history: in every other case the process has already answered a request before this
    // one — a twin of the instance (same ids and sizes, other times, slot locations and demands). The
    // answer to the case's own instance must not depend on it (state kept between calls).
    let h = text.bytes().fold(1469598103934665603u64, |a, b| (a ^ b as u64).wrapping_mul(1099511628211));
    if h % 2 == 0 {
        let mut twin = inst.clone();
        let shift = crate::inst::GRID * (1 + h / 2 % 3);
        for d in twin.departures.iter_mut() {
            for g in d.segs.iter_mut() {
                g.departure += shift;
                g.passengers += 1;
            }
        }
        for m in twin.maint.iter_mut() {
            m.start += shift;
            m.end += shift;
            m.loc = (m.loc + 1) % twin.nlocs;
        }
        let tj = twin.to_json();
        let _ = guarded(|| server::solve_instance(tj));
    }
    let started = Instant::now();
    let _ = solver::verif::take();
    let res = guarded(|| server::solve_instance(json));
    let mut s = String::new();
    let events = solver::verif::take();
    // the network the returned schedules refer to (default depots are numbered per load)
    let own_network = events.iter().find_map(|e| match e {
        solver::verif::Event::Stage(_, sch) => Some(sch.get_network()),
        _ => None,
    });
    let ctx_res = match own_network {
        Some(nw) => Ok(Ctx::from_network(inst, nw)),
        None => Ctx::load(inst),
    };
    match ctx_res {
        Err(site) => {
            writeln!(s, "X loadpanic {}", site).unwrap();
        }
        Ok(ctx) => {
            if ctx.inst.depots.is_none() {
                writeln!(s, "P defaultorder {}", list_tok(ctx.inst.default_order.iter())).unwrap();
            }
            let mut nsteps = 0;
            for e in events.iter() {
                match e {
                    solver::verif::Event::Step(sch) => {
                        let up = sch.unserved_passengers();
                        writeln!(s, "P step {} {} {} {} {}", nsteps, up.0 + up.1, sch.maintenance_violation(), sch.number_of_vehicles(), sch.costs()).unwrap();
                        s += &ctx.dump_schedule(&format!("S:step{}", nsteps), sch);
                        nsteps += 1;
                    }
                    solver::verif::Event::StepObjective(levels) => {
                        // belongs to the step recorded just before
                        writeln!(s, "P stepobj {} {}", nsteps.max(1) - 1, levels.join(" ")).unwrap();
                    }
                    solver::verif::Event::Stage(name, sch) => {
                        s += &ctx.dump_schedule(&format!("S:{}", name), sch);
                    }
                    solver::verif::Event::Optimised(vt, tr) => {
                        s += &ctx.transition_lines("S:optimised", *vt as usize, tr);
                    }
                    solver::verif::Event::Flow { vehicle_type, arcs, slots, tours } => {
                        writeln!(s, "F begin {} {}", vehicle_type, arcs.len()).unwrap();
                        for (n, c) in slots {
                            writeln!(s, "F slot {} {}", n, c).unwrap();
                        }
                        for a in arcs {
                            let ep = |e: &(bool, u16, bool)| format!("{}{}{}", if e.0 { "d" } else { "n" }, e.1, if e.2 { "R" } else { "L" });
                            writeln!(s, "F arc {} {} {} {} {} {}", ep(&a.src), ep(&a.dst), a.lower_bound, a.upper_bound, a.cost, a.flow).unwrap();
                        }
                        for t in tours {
                            writeln!(s, "F tour {}", list_tok(t.iter())).unwrap();
                        }
                        writeln!(s, "F end {}", vehicle_type).unwrap();
                    }
                }
            }
            match &res {
                Ok(v) => {
                    writeln!(s, "P ok {}", started.elapsed().as_millis()).unwrap();
                    s += &flatten_output(&ctx, v);
                }
                Err(site) => {
                    writeln!(s, "P panic {}", site).unwrap();
                }
            }
        }
    }
    std::fs::write(out, s).unwrap();
}

/// parent: run the child binary with a wall-clock limit; returns the observation lines, each
/// prefixed by the build name
pub fn run_child(exe: &str, case_file: &str, tmp_out: &str, limit: Duration) -> String {
    let _ = std::fs::remove_file(tmp_out);
    let mut cmd = Command::new(exe);
    cmd.arg("pipe-child").arg(case_file).arg(tmp_out).stdout(Stdio::null()).stderr(Stdio::null());
    let start = Instant::now();
    let mut child = match cmd.spawn() {
        Ok(c) => c,
        Err(e) => return format!("P spawnerror {}\n", e),
    };
    loop {
        match child.try_wait() {
            Ok(Some(status)) => {
                let body = std::fs::read_to_string(tmp_out).unwrap_or_default();
                let _ = std::fs::remove_file(tmp_out);
                if body.is_empty() {
                    // the process died without writing (abort, stack overflow, OOM)
                    return format!("P died {}\n", status.code().map(|c| c.to_string()).unwrap_or("signal".to_string()));
                }
                return body;
            }
            Ok(None) => {
                if start.elapsed() > limit {
                    let _ = child.kill();
                    let _ = child.wait();
                    return format!("P timeout {}\n", limit.as_secs());
                }
                std::thread::sleep(Duration::from_millis(5));
            }
            Err(e) => return format!("P waiterror {}\n", e),
        }
    }
}

/// the `pipe` case body: instance, then the observations of the release build (`B release` …)
/// and of the checked build (`B checked` …)
pub fn run(inst: &Inst, workdir: &std::path::Path, name: &str, tier: &str) -> String {
    let case_in = workdir.join(format!("{}.pipein", name));
    std::fs::write(&case_in, inst.to_text()).unwrap();
    let exe = std::env::current_exe().unwrap();
    let release = exe.to_str().unwrap().to_string();
    let checked = release.replace("/release/", "/checked/");
    let limit = Duration::from_secs(if tier == "thorough" { 120 } else { 30 });
    let mut s = String::new();
    let tmp = workdir.join(format!("{}.pipeout", name));
    let body = run_child(&release, case_in.to_str().unwrap(), tmp.to_str().unwrap(), limit);
    // the instance with the realised default depot order comes from the child
    let mut inst2 = inst.clone();
    for l in body.lines() {
        if let Some(r) = l.strip_prefix("P defaultorder ") {
            inst2.default_order = r.split_whitespace().map(|x| x.parse().unwrap()).collect();
        }
    }
    s += &inst2.to_text();
    s += "B release\n";
    s += &body;
    if std::path::Path::new(&checked).exists() {
        s += "B checked\n";
        let body2 = run_child(&checked, case_in.to_str().unwrap(), tmp.to_str().unwrap(), limit);
        // only the result class and the objective of the second build are kept
        for l in body2.lines() {
            if l.starts_with("P ") || l.starts_with("J obj") || l.starts_with("X ") {
                s += l;
                s += "\n";
            }
        }
    }
    let _ = std::fs::remove_file(&case_in);
    s
}
