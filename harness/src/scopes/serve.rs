//! scope `serve` (C18): request bodies for the real server binary (valid instances with disjoint
//! id namespaces, malformed JSON, well-formed JSON with dangling references) and flattening of a
//! response against the instance of its own request. The concurrent client is /verif/serve.py.
use crate::ctx::Ctx;
use crate::inst::{gen_instance, Inst, Profile};
use crate::prng::Rng;
use crate::scopes::pipe::flatten_output;
use std::path::Path;

pub fn genreq(seed: u64, n: u64, out: &Path) {
    for k in 0..n {
        let mut rng = Rng::derive(seed, "serve", k);
        let kind = match rng.below(10) {
            0..=5 => "valid",
            6 => "malformed",
            7..=8 => "invalid",
            _ => "health",
        };
        let p = if rng.chance(50) { Profile::small() } else { Profile::maint_heavy() };
        let mut inst = gen_instance(&mut rng, &p);
        inst.prefix = format!("q{}x", k);
        // "twin" requests: the instance of the previous request with the SAME ids but other times
        // and demands — an answer taken from another request's computation then fails validation
        // against the request's own instance
        if k % 2 == 1 && rng.chance(50) {
            let mut prev_rng = Rng::derive(seed, "serve", k - 1);
            let _ = prev_rng.below(10);
            let pp = if prev_rng.chance(50) { Profile::small() } else { Profile::maint_heavy() };
            let mut twin = gen_instance(&mut prev_rng, &pp);
            twin.prefix = format!("q{}x", k - 1);
            let shift = crate::inst::GRID * rng.range(1, 3);
            for d in twin.departures.iter_mut() {
                for g in d.segs.iter_mut() {
                    g.departure += shift;
                    g.passengers += 1;
                }
            }
            for m in twin.maint.iter_mut() {
                m.start += shift;
                m.end += shift;
            }
            inst = twin;
        }
        let json = inst.to_json();
        let body = match kind {
            "valid" => serde_json::to_string(&json).unwrap(),
            "malformed" => {
                let s = serde_json::to_string(&json).unwrap();
                match rng.below(3) {
                    0 => s[..s.len() / 2].to_string(),
                    1 => "{\"vehicleTypes\": [".to_string(),
                    _ => "this is not json".to_string(),
                }
            }
            "invalid" => {
                // well-formed JSON that the loader cannot resolve
                let mut j = json.clone();
                match rng.below(3) {
                    0 => {
                        // the route that the first departure uses (an unused route is never resolved)
                        let r = inst.departures[0].route;
                        j["routes"][r]["vehicleType"] = serde_json::json!("no_such_type");
                    }
                    1 => {
                        j["departures"][0]["route"] = serde_json::json!("no_such_route");
                    }
                    _ => {
                        j.as_object_mut().unwrap().remove("parameters");
                    }
                }
                serde_json::to_string(&j).unwrap()
            }
            _ => String::new(),
        };
        std::fs::write(out.join(format!("req_{}.kind", k)), kind).unwrap();
        std::fs::write(out.join(format!("req_{}.body", k)), body).unwrap();
        std::fs::write(out.join(format!("req_{}.inst", k)), inst.to_text()).unwrap();
    }
}

/// the `I`/`J` lines of a response, against the instance of the request it answers
pub fn flatten(inst: Inst, body: &str) -> String {
    let v: serde_json::Value = match serde_json::from_str(body) {
        Ok(v) => v,
        Err(_) => return format!("{}V badjson\n", inst.to_text()),
    };
    match Ctx::load(inst.clone()) {
        Ok(ctx) => format!("{}{}", ctx.inst.to_text(), flatten_output(&ctx, &v)),
        Err(site) => format!("{}X loadpanic {}\n", inst.to_text(), site),
    }
}
