//! scope `mcf` (C14, C07 start): the real `MinCostFlowSolver::solve`, its hooked per-type flow
//! networks with the computed flow and the decoded tours, and node potentials computed here by
//! Bellman–Ford on the residual network (untrusted: the Lean driver only CHECKS them with the
//! proved certificate checker) for (1) the solver's own costs and (2) the vehicle count.
use crate::ctx::{guarded, list_tok, Ctx};
use solver::min_cost_flow_solver::MinCostFlowSolver;
use solver::verif::{Event, FlowArc};
use std::collections::HashMap;
use std::fmt::Write;

fn ep(e: &(bool, u16, bool)) -> String {
    format!("{}{}{}", if e.0 { "d" } else { "n" }, e.1, if e.2 { "R" } else { "L" })
}

/// shortest-path potentials on the residual graph (virtual source at distance 0 to every node);
/// `None` when a negative residual cycle exists (the flow is not optimal for these costs)
fn potentials(arcs: &[FlowArc], cost: &dyn Fn(&FlowArc) -> i128) -> Option<HashMap<String, i128>> {
    let mut nodes: Vec<String> = vec![];
    let mut idx: HashMap<String, usize> = HashMap::new();
    for a in arcs {
        for e in [ep(&a.src), ep(&a.dst)] {
            if !idx.contains_key(&e) {
                idx.insert(e.clone(), nodes.len());
                nodes.push(e);
            }
        }
    }
    let mut res: Vec<(usize, usize, i128)> = vec![];
    for a in arcs {
        let (u, v) = (idx[&ep(&a.src)], idx[&ep(&a.dst)]);
        if a.flow < a.upper_bound {
            res.push((u, v, cost(a)));
        }
        if a.flow > a.lower_bound {
            res.push((v, u, -cost(a)));
        }
    }
    let n = nodes.len();
    let mut d = vec![0i128; n];
    for round in 0..=n {
        let mut changed = false;
        for &(u, v, w) in &res {
            if d[u] + w < d[v] {
                d[v] = d[u] + w;
                changed = true;
            }
        }
        if !changed {
            break;
        }
        if round == n {
            return None;
        }
    }
    Some(nodes.into_iter().enumerate().map(|(i, s)| (s, d[i])).collect())
}

pub fn run(ctx: &Ctx) -> String {
    let mut s = String::new();
    let nw = ctx.nw.clone();
    let _ = solver::verif::take();
    let res = guarded(|| MinCostFlowSolver::initialize(nw).solve());
    let events = solver::verif::take();
    for e in events.iter() {
        if let Event::Flow { vehicle_type, arcs, slots, tours } = e {
            writeln!(s, "F begin {} {}", vehicle_type, arcs.len()).unwrap();
            let mut slots = slots.clone();
            slots.sort();
            for (n, c) in slots {
                writeln!(s, "F slot {} {}", n, c).unwrap();
            }
            for a in arcs {
                writeln!(s, "F arc {} {} {} {} {} {}", ep(&a.src), ep(&a.dst), a.lower_bound, a.upper_bound, a.cost, a.flow).unwrap();
            }
            for t in tours {
                writeln!(s, "F tour {}", list_tok(t.iter())).unwrap();
            }
            match potentials(arcs, &|a| a.cost as i128) {
                Some(p) => {
                    let mut v: Vec<_> = p.into_iter().collect();
                    v.sort();
                    writeln!(s, "F pot1 {}", list_tok(v.iter().map(|(k, x)| format!("{} {}", k, x)))).unwrap();
                }
                None => writeln!(s, "F negcycle1").unwrap(),
            }
            // vehicle count: cost 1 on the depot arcs (dXL -> dXR), 0 elsewhere
            let is_depot_arc = |a: &FlowArc| a.src.0 && a.dst.0 && a.src.1 == a.dst.1 && !a.src.2 && a.dst.2;
            match potentials(arcs, &|a| if is_depot_arc(a) { 1 } else { 0 }) {
                Some(p) => {
                    let mut v: Vec<_> = p.into_iter().collect();
                    v.sort();
                    writeln!(s, "F pot2 {}", list_tok(v.iter().map(|(k, x)| format!("{} {}", k, x)))).unwrap();
                }
                None => writeln!(s, "F negcycle2").unwrap(),
            }
            writeln!(s, "F end {}", vehicle_type).unwrap();
        }
    }
    match res {
        Ok(sch) => {
            s.push_str("T ok\n");
            s.push_str(&ctx.dump_schedule("S", &sch));
        }
        Err(site) => s.push_str(&format!("T panic {}\n", site)),
    }
    s
}
