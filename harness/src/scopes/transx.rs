//! scope `transx` (C15, thorough tier): EXHAUSTIVE enumeration of all sequences of up to three
//! rotation-cycle operations (move, remove, add at the end of any cycle, add to own cycle, every
//! 3-opt move) from the transition of a small base schedule (four vehicles of one type, two of them
//! maintained, depots at two locations with asymmetric distances). Case `k` selects one of 8 base
//! variants; nothing is random.
use crate::ctx::{list_tok, veh_tok, Ctx};
use crate::inst::*;
use crate::scopes::trans::{exec, State};
use im::HashMap as ImHashMap;
use model::base_types::VehicleIdx;
use std::collections::BTreeMap;

pub const VARIANTS: u64 = 8;

pub fn instance(k: u64) -> Inst {
    // four trips A->B / B->A at staggered times, two maintenance slots, two depots
    let asym = k & 1 != 0;
    let maxd = if k & 2 != 0 { 2500 } else { 50_000 };
    let two_tracks = k & 4 != 0;
    let mk = |o: usize, d: usize| Route { vt: 0, segs: vec![RSeg { origin: o, dest: d, distance: 1000, duration: GRID, max_form: None }] };
    Inst {
        vtypes: vec![VType { capacity: 100, seats: 100, max_form: None }],
        nlocs: 2,
        depots: Some(vec![
            InDepot { loc: 0, capacity: 10, allowed: vec![(0, None)] },
            InDepot { loc: 1, capacity: 10, allowed: vec![(0, None)] },
        ]),
        default_order: vec![],
        routes: vec![mk(0, 1), mk(1, 0), mk(0, 1), mk(1, 0)],
        departures: (0..4).map(|i| Departure { route: i, segs: vec![DSeg { rseg: 0, departure: BASE + GRID * (i as u64), passengers: 1, seated: 0 }] }).collect(),
        maint: vec![
            Maint { loc: 0, start: BASE + 6 * GRID, end: BASE + 7 * GRID, tracks: if two_tracks { 2 } else { 1 } },
            Maint { loc: 1, start: BASE + 6 * GRID, end: BASE + 7 * GRID, tracks: 1 },
        ],
        dh_idx: vec![0, 1],
        dh_dur: vec![vec![0, GRID], vec![GRID, 0]],
        dh_dist: vec![vec![0, 700], vec![if asym { 3000 } else { 700 }, 0]],
        forbid: false,
        shunt_min: 0,
        shunt_dh: 0,
        max_dist: maxd,
        c_staff: 0,
        c_service: 1,
        c_maint: 1,
        c_dh: 1,
        c_idle: 0,
        render: 0,
        prefix: String::new(),
    }
}

pub fn generate(ctx: &Ctx) -> String {
    let mut st = State { vt: 0, sched: None, tours: ImHashMap::new(), regs: BTreeMap::new() };
    let mut s = String::new();
    let mut counter = 0usize;
    let mut do_op = |st: &mut State, s: &mut String, op: String| -> usize {
        let id = counter;
        let op = format!("{} @{}", op, id);
        counter += 1;
        s.push_str(&format!("O {}\n", op));
        s.push_str(&exec(ctx, st, &op));
        id
    };
    // nodes: depots 0..5 (s0 e0 s1 e1 ovf), trips 6..9, maintenance 10, 11
    let n = ctx.nodes.len();
    let trips: Vec<usize> = (0..n).filter(|&i| ctx.nw.node(ctx.n(i)).is_service()).collect();
    let maint: Vec<usize> = (0..n).filter(|&i| ctx.nw.node(ctx.n(i)).is_maintenance()).collect();
    // v0: trip0 + slot at its end location, v1: trip1 + other slot, v2: trip2, v3: trip3 (mixed depots)
    let paths = vec![
        format!("0 {} {} 3", trips[0], maint[1]),
        format!("2 {} {} 1", trips[1], maint[0]),
        format!("{}", trips[2]),
        format!("0 {} 1", trips[3]),
    ];
    do_op(&mut st, &mut s, format!("tbase 0 | {}", paths.join(" | ")));
    if st.tours.len() < 3 {
        return s;
    }
    let r0 = do_op(&mut st, &mut s, "tnew".to_string());
    let r1 = do_op(&mut st, &mut s, "tsched".to_string());
    let mut frontier: Vec<usize> = vec![r0, r1].into_iter().filter(|r| st.regs.contains_key(r)).collect();
    for _depth in 0..3 {
        let mut next = vec![];
        for &r in frontier.iter() {
            let (tr, detached) = st.regs[&r].clone();
            let nc = tr.number_of_cycles();
            let mut members: Vec<VehicleIdx> = tr.cycles_iter().flat_map(|c| c.iter()).collect();
            members.sort();
            let mut ops: Vec<String> = vec![];
            for v in members.iter() {
                let own = tr.cycles_iter().position(|c| c.iter().any(|x| x == *v)).unwrap();
                for ci in 0..nc {
                    if ci != own {
                        ops.push(format!("tmove {} {} {}", r, veh_tok(*v), ci));
                    }
                }
                ops.push(format!("tremove {} {}", r, veh_tok(*v)));
            }
            for v in detached.iter() {
                for ci in 0..nc {
                    ops.push(format!("taddend {} {} {}", r, veh_tok(*v), ci));
                }
                ops.push(format!("taddown {} {}", r, veh_tok(*v)));
            }
            if detached.is_empty() {
                for ci in 0..nc {
                    let len = tr.get_cycle(ci).len();
                    for i in 0..len {
                        for j in i + 1..len {
                            for k in j + 1..len {
                                ops.push(format!("t3opt {} {} {} {} {}", r, ci, i, j, k));
                            }
                        }
                    }
                }
            }
            for op in ops {
                let id = do_op(&mut st, &mut s, op);
                if st.regs.contains_key(&id) {
                    next.push(id);
                }
            }
        }
        frontier = next;
    }
    let _ = list_tok(Vec::<usize>::new());
    s
}
