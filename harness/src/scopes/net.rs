//! scope `net` (C17, C01_reach): load with the real loader, dump every public network query.
use super::load_or_report;
use crate::inst::Inst;

pub fn run(inst: Inst) -> String {
    match load_or_report(inst) {
        Err(s) => s,
        Ok(ctx) => {
            let mut s = ctx.inst.to_text();
            s += &ctx.dump_network();
            s
        }
    }
}
