//! scope `sched` (C10, C13, schedule half of C09): sequences of public `Schedule` modifications
//! with arguments drawn from the current real state; the full canonical state after every
//! operation.
use crate::ctx::{guarded, list_tok, parse_veh, veh_tok, Ctx};
use crate::prng::Rng;
use crate::scopes::tour::{random_path, with_depots};
use im::HashMap as ImHashMap;
use model::base_types::{NodeIdx, VehicleIdx, VehicleTypeIdx};
use solution::path::Path;
use solution::segment::Segment;
use solution::transition::Transition;
use solution::Schedule;

pub struct State {
    pub sched: Schedule,
}

fn nodes_of(ctx: &Ctx, toks: &[&str]) -> Vec<NodeIdx> {
    toks.iter().map(|t| ctx.n(t.parse::<usize>().unwrap())).collect()
}

fn finish(ctx: &Ctx, st: &mut State, out: &mut String, r: Result<Result<(Schedule, String), String>, String>) {
    match r {
        Ok(Ok((s, extra))) => {
            out.push_str(&format!("T ok {}\n", extra));
            st.sched = s;
        }
        Ok(Err(_)) => out.push_str("T err\n"),
        Err(site) => out.push_str(&format!("T panic {}\n", site)),
    }
    out.push_str(&ctx.dump_schedule("S", &st.sched));
}

/// executes one operation on the current schedule; prints the result class and the state after
pub fn exec(ctx: &Ctx, st: &mut State, op: &str) -> String {
    let t: Vec<&str> = op.split_whitespace().filter(|x| !x.starts_with('@')).collect();
    let nw = ctx.nw.clone();
    let s = st.sched.clone();
    let mut out = String::new();
    let r: Result<Result<(Schedule, String), String>, String> = match t[0] {
        "init" => Ok(Ok((Schedule::empty(nw.clone()), String::new()))),
        "spawn" => {
            let vt = ctx.vt(t[1].parse().unwrap());
            let nodes = nodes_of(ctx, &t[2..]);
            guarded(|| s.spawn_vehicle_for_path(vt, nodes).map(|(s2, v)| (s2, veh_tok(v))))
        }
        "dummyspawn" => {
            let d = parse_veh(t[1]);
            let vt = ctx.vt(t[2].parse().unwrap());
            guarded(|| s.spawn_vehicle_to_replace_dummy_tour(d, vt).map(|(s2, v)| (s2, veh_tok(v))))
        }
        "delete" => {
            let v = parse_veh(t[1]);
            guarded(|| s.replace_vehicle_by_dummy(v).map(|s2| (s2, String::new())))
        }
        "addpath" => {
            let v = parse_veh(t[1]);
            let nodes = nodes_of(ctx, &t[2..]);
            guarded(|| match Path::new(nodes, nw.clone()) {
                Ok(Some(p)) => s.add_path_to_vehicle_tour(v, p).map(|(s2, rm)| {
                    (s2, format!("removed {}", rm.map(|p| list_tok(p.iter().map(|x| x.idx()))).unwrap_or("-".to_string())))
                }),
                _ => Err("badpath".to_string()),
            })
        }
        "rmseg" => {
            let v = parse_veh(t[1]);
            let seg = Segment::new(ctx.n(t[2].parse().unwrap()), ctx.n(t[3].parse().unwrap()));
            guarded(|| s.remove_segment(seg, v).map(|s2| (s2, String::new())))
        }
        "fit" => {
            let (p, r) = (parse_veh(t[1]), parse_veh(t[2]));
            let seg = Segment::new(ctx.n(t[3].parse().unwrap()), ctx.n(t[4].parse().unwrap()));
            guarded(|| s.fit_reassign(seg, p, r).map(|s2| (s2, String::new())))
        }
        "override" => {
            let (p, r) = (parse_veh(t[1]), parse_veh(t[2]));
            let seg = Segment::new(ctx.n(t[3].parse().unwrap()), ctx.n(t[4].parse().unwrap()));
            guarded(|| {
                s.override_reassign(seg, p, r)
                    .map(|(s2, d)| (s2, format!("newdummy {}", d.map(veh_tok).unwrap_or("-".to_string()))))
            })
        }
        "improve" => {
            let vs: Option<Vec<VehicleIdx>> = if t.get(1) == Some(&"all") { None } else { Some(t[1..].iter().map(|x| parse_veh(x)).collect()) };
            guarded(|| Ok((s.improve_depots(vs), String::new())))
        }
        "endgreedy" => guarded(|| s.reassign_end_depots_greedily().map(|s2| (s2, String::new()))),
        "recompute" => {
            let vts: Option<Vec<VehicleTypeIdx>> = if t.get(1) == Some(&"all") { None } else { Some(t[1..].iter().map(|x| ctx.vt(x.parse().unwrap())).collect()) };
            guarded(|| Ok((s.recompute_transitions_for(vts), String::new())))
        }
        "endconsistent" => guarded(|| Ok((s.reassign_end_depots_consistent_with_transitions(), String::new()))),
        "settrans" => {
            // the current transitions with one vehicle of type <vt> moved to cycle <ci>
            let vt = ctx.vt(t[1].parse().unwrap());
            let v = parse_veh(t[2]);
            let ci: usize = t[3].parse().unwrap();
            guarded(|| {
                let mut trs: ImHashMap<VehicleTypeIdx, Transition> = ImHashMap::new();
                for k in 0..ctx.ntypes() {
                    trs.insert(ctx.vt(k), s.next_day_transition_of(ctx.vt(k)).clone());
                }
                let moved = s.next_day_transition_of(vt).move_vehicle(v, ci, s.get_tours(), &nw);
                trs.insert(vt, moved);
                Ok((s.set_next_day_transitions(trs), String::new()))
            })
        }
        other => panic!("unknown sched op {}", other),
    };
    finish(ctx, st, &mut out, r);
    out
}

fn tour_nodes(s: &Schedule, v: VehicleIdx) -> Vec<usize> {
    s.tour_of(v).unwrap().all_nodes_iter().map(|x| x.idx() as usize).collect()
}

/// a segment of the tour containing at least one non-depot node
fn pick_seg(ctx: &Ctx, rng: &mut Rng, nodes: &[usize], depots_percent: u64) -> Option<(usize, usize)> {
    let n = nodes.len();
    let non_depot: Vec<usize> = (0..n).filter(|&i| !ctx.nw.node(ctx.n(nodes[i])).is_depot()).collect();
    if non_depot.is_empty() {
        return None;
    }
    let lo = *non_depot.first().unwrap();
    let hi = *non_depot.last().unwrap();
    let mut a = rng.range(lo as u64, hi as u64) as usize;
    let mut b = rng.range(a as u64, hi as u64) as usize;
    if rng.chance(depots_percent) {
        // a depot-carrying segment must take all activities on that side
        match rng.below(3) {
            0 => {
                a = 0;
                b = if rng.chance(50) { hi } else { n - 1 };
            }
            1 => {
                b = n - 1;
                a = if rng.chance(50) { lo } else { 0 };
            }
            _ => {
                a = lo;
                b = hi;
            }
        }
    }
    Some((nodes[a], nodes[b]))
}

pub fn next_op(ctx: &Ctx, st: &State, rng: &mut Rng) -> Option<String> {
    let s = &st.sched;
    let ntypes = ctx.ntypes() as u64;
    let reals: Vec<VehicleIdx> = s.vehicles_iter_all().collect();
    let dummies: Vec<VehicleIdx> = s.dummy_iter().collect();
    let all: Vec<VehicleIdx> = reals.iter().chain(dummies.iter()).copied().collect();
    let choice = if reals.len() < 2 { rng.below(25) } else { rng.below(104) };
    match choice {
        0..=17 => {
            let vt = rng.below(ntypes) as usize;
            let p = random_path(ctx, rng, Some(vt), 4);
            if p.is_empty() {
                return None;
            }
            let p = with_depots(ctx, rng, p, 45);
            Some(format!("spawn {} {}", vt, list_tok(p)))
        }
        18..=24 => {
            // a path with nodes of possibly another type (error branch), or a maintenance-only path
            let vt = rng.below(ntypes) as usize;
            let p = random_path(ctx, rng, None, 3);
            if p.is_empty() {
                return None;
            }
            Some(format!("spawn {} {}", vt, list_tok(p)))
        }
        25..=30 => Some(format!("delete {}", veh_tok(*rng.pick(&reals)))),
        31..=44 => {
            // real vehicles only: `add_path_to_vehicle_tour` documents dummy receivers but unwraps
            // `self.vehicles.get(..)` (modifications.rs:289) — outside ArgsValid, see DESIGN §7
            let v = *rng.pick(&reals);
            let vt = s.vehicle_type_of(v).ok().map(|x| x.0 as usize);
            let same_type = rng.chance(85);
            let p = random_path(ctx, rng, if same_type { vt } else { None }, 3);
            if p.is_empty() {
                return None;
            }
            let p = if v.is_real() { with_depots(ctx, rng, p, 25) } else { p };
            Some(format!("addpath {} {}", veh_tok(v), list_tok(p)))
        }
        45..=52 => {
            let v = *rng.pick(&reals);
            let (a, b) = pick_seg(ctx, rng, &tour_nodes(s, v), 15)?;
            Some(format!("rmseg {} {} {}", veh_tok(v), a, b))
        }
        53..=76 => {
            if all.len() < 2 {
                return None;
            }
            let p = *rng.pick(&all);
            let cand: Vec<VehicleIdx> = all.iter().copied().filter(|x| *x != p).collect();
            // prefer receivers of the same type
            let same: Vec<VehicleIdx> = cand.iter().copied().filter(|x| s.vehicle_type_of(*x).ok() == s.vehicle_type_of(p).ok()).collect();
            let r = if !same.is_empty() && rng.chance(70) { *rng.pick(&same) } else { *rng.pick(&cand) };
            let (a, b) = pick_seg(ctx, rng, &tour_nodes(s, p), if p.is_real() { 20 } else { 0 })?;
            let kind = if rng.chance(50) { "fit" } else { "override" };
            Some(format!("{} {} {} {} {}", kind, veh_tok(p), veh_tok(r), a, b))
        }
        77..=82 | 100..=103 => {
            // several vehicles of one rotation cycle at once (their transition updates interact)
            let multi: Vec<Vec<VehicleIdx>> = (0..ctx.ntypes())
                .flat_map(|vt| {
                    s.next_day_transition_of(ctx.vt(vt))
                        .cycles_iter()
                        .map(|c| c.iter().collect::<Vec<VehicleIdx>>())
                        .filter(|c| c.len() >= 2)
                        .collect::<Vec<_>>()
                })
                .collect();
            if !multi.is_empty() && rng.chance(65) {
                let mut vs = rng.pick(&multi).clone();
                rng.shuffle(&mut vs);
                vs.truncate(rng.range(2, 3) as usize);
                Some(format!("improve {}", list_tok(vs.iter().map(|v| veh_tok(*v)))))
            } else if rng.chance(40) {
                Some("improve all".to_string())
            } else {
                let k = rng.range(1, reals.len().min(3) as u64) as usize;
                let mut vs = reals.clone();
                rng.shuffle(&mut vs);
                vs.truncate(k);
                Some(format!("improve {}", list_tok(vs.iter().map(|v| veh_tok(*v)))))
            }
        }
        83..=85 => Some("endgreedy".to_string()),
        86..=89 => {
            if rng.chance(50) {
                Some("recompute all".to_string())
            } else {
                Some(format!("recompute {}", rng.below(ntypes)))
            }
        }
        90..=93 => Some("endconsistent".to_string()),
        94..=96 => {
            let v = *rng.pick(&reals);
            let vt = s.vehicle_type_of(v).unwrap();
            let nc = s.next_day_transition_of(vt).number_of_cycles();
            if nc == 0 {
                return None;
            }
            Some(format!("settrans {} {} {}", vt.0, veh_tok(v), rng.below(nc as u64)))
        }
        _ => {
            if dummies.is_empty() {
                return None;
            }
            let d = *rng.pick(&dummies);
            let vt = s
                .tour_of(d)
                .unwrap()
                .all_nodes_iter()
                .find(|n| ctx.nw.node(*n).is_service())
                .map(|n| ctx.nw.vehicle_type_for(n).0 as u64)
                .unwrap_or(0);
            let vt = if rng.chance(85) { vt } else { rng.below(ntypes) };
            Some(format!("dummyspawn {} {}", veh_tok(d), vt))
        }
    }
}

pub fn generate(ctx: &Ctx, rng: &mut Rng, n_ops: u64) -> String {
    let mut st = State { sched: Schedule::empty(ctx.nw.clone()) };
    let mut s = String::new();
    s.push_str("O init\n");
    s.push_str(&exec(ctx, &mut st, "init"));
    // a dummy tour [a, x, b] whose middle trip is the only connection (a -> x -> b connectable,
    // a -> b not): taking x out must be refused; otherwise [a, b] can later be handed to a real
    // vehicle as a "trusted" path (C01: consecutive activities connectable)
    {
        let nn = ctx.nodes.len();
        let nw = &ctx.nw;
        let mut gaps: Vec<(usize, usize, usize)> = vec![];
        for a in 0..nn {
            for x in 0..nn {
                for b in 0..nn {
                    let (na, nx, nb) = (ctx.n(a), ctx.n(x), ctx.n(b));
                    if nw.node(na).is_service()
                        && nw.node(nb).is_service()
                        && nw.vehicle_type_for(na) == nw.vehicle_type_for(nb)
                        // the middle node is a trip of the same type, or a maintenance slot (which
                        // `Tour::new_dummy` drops when the vehicle is replaced by a dummy)
                        && ((nw.node(nx).is_service() && nw.vehicle_type_for(na) == nw.vehicle_type_for(nx))
                            || nw.node(nx).is_maintenance())
                        && nw.can_reach(na, nx)
                        && nw.can_reach(nx, nb)
                        && !nw.can_reach(na, nb)
                    {
                        gaps.push((a, x, b));
                    }
                }
            }
        }
        let maint_gaps: Vec<(usize, usize, usize)> =
            gaps.iter().copied().filter(|g| nw.node(ctx.n(g.1)).is_maintenance()).collect();
        let wanted = if maint_gaps.is_empty() { rng.chance(40) } else { rng.chance(85) };
        if wanted && !gaps.is_empty() {
            let (a, x, b) = if !maint_gaps.is_empty() && rng.chance(75) { *rng.pick(&maint_gaps) } else { *rng.pick(&gaps) };
            let vt = nw.vehicle_type_for(ctx.n(a)).0 as usize;
            let mut run = |st: &mut State, s: &mut String, op: String| {
                s.push_str(&format!("O {}\n", op));
                s.push_str(&exec(ctx, st, &op));
            };
            run(&mut st, &mut s, format!("spawn {} {} {} {}", vt, a, x, b));
            // taking the middle node out of the REAL tour (segment removal, or handing it to another
            // vehicle) must be refused as well - also when it is a maintenance slot
            if let Some(v) = st.sched.vehicles_iter_all().last() {
                match rng.below(3) {
                    0 => run(&mut st, &mut s, format!("rmseg {} {} {}", veh_tok(v), x, x)),
                    1 => {
                        let p = random_path(ctx, rng, Some(vt), 1);
                        if !p.is_empty() {
                            run(&mut st, &mut s, format!("spawn {} {}", vt, list_tok(p)));
                            if let Some(r) = st.sched.vehicles_iter_all().filter(|r| *r != v).last() {
                                let kind = if rng.chance(50) { "override" } else { "fit" };
                                run(&mut st, &mut s, format!("{} {} {} {} {}", kind, veh_tok(v), veh_tok(r), x, x));
                            }
                        }
                    }
                    _ => {}
                }
            }
            if let Some(v) = st.sched.vehicles_iter_all().filter(|v| tour_nodes(&st.sched, *v).contains(&a)).last() {
                run(&mut st, &mut s, format!("delete {}", veh_tok(v)));
            }
            if let Some(d) = st.sched.dummy_iter().last() {
                // two possible receivers
                for _ in 0..2 {
                    let p = random_path(ctx, rng, Some(vt), 2);
                    if !p.is_empty() {
                        run(&mut st, &mut s, format!("spawn {} {}", vt, list_tok(p)));
                    }
                }
                let reals: Vec<VehicleIdx> = st.sched.vehicles_iter_all().collect();
                if !reals.is_empty() && st.sched.is_dummy(d) {
                    let r1 = *rng.pick(&reals);
                    // (a dropped maintenance slot is no longer on the dummy tour: not a segment of it)
                    if tour_nodes(&st.sched, d).contains(&x) {
                        run(&mut st, &mut s, format!("fit {} {} {} {}", veh_tok(d), veh_tok(r1), x, x));
                    }
                    if st.sched.is_dummy(d) {
                        let nodes = tour_nodes(&st.sched, d);
                        if nodes.len() >= 2 {
                            let r2 = *rng.pick(&reals);
                            let kind = if rng.chance(50) { "override" } else { "fit" };
                            run(&mut st, &mut s, format!("{} {} {} {} {}", kind, veh_tok(d), veh_tok(r2), nodes[0], nodes[nodes.len() - 1]));
                        }
                    }
                }
            }
        }
    }
    // a maintenance slot that travels through a dummy tour while the slot fills up again: vehicle A
    // visits the slot, a dummy tour exists, the slot moves from A into the dummy tour, other vehicles
    // fill the slot up to its track count, then the dummy tour hands the slot to a real vehicle -
    // which must be refused (C02 / C10: no slot hosts more vehicles than it has tracks)
    let maint_nodes: Vec<usize> = (0..ctx.nodes.len()).filter(|&i| ctx.nw.node(ctx.n(i)).is_maintenance()).collect();
    if !maint_nodes.is_empty() && rng.chance(30) {
        let m = *rng.pick(&maint_nodes);
        let nw = &ctx.nw;
        let ntypes = nw.vehicle_types().iter().count();
        let vt = rng.below(ntypes as u64) as usize;
        let mut run = |st: &mut State, s: &mut String, op: String| {
            s.push_str(&format!("O {}\n", op));
            s.push_str(&exec(ctx, st, &op));
        };
        let before: Vec<VehicleIdx> = st.sched.vehicles_iter_all().collect();
        run(&mut st, &mut s, format!("spawn {} {}", vt, m));
        let a = st.sched.vehicles_iter_all().find(|v| !before.contains(v));
        // a dummy tour of the same type: a spawned and deleted vehicle
        let p = random_path(ctx, rng, Some(vt), 1);
        if let (Some(a), false) = (a, p.is_empty()) {
            let before: Vec<VehicleIdx> = st.sched.vehicles_iter_all().collect();
            run(&mut st, &mut s, format!("spawn {} {}", vt, list_tok(p)));
            let b = st.sched.vehicles_iter_all().find(|v| !before.contains(v));
            if let Some(b) = b {
                run(&mut st, &mut s, format!("delete {}", veh_tok(b)));
            }
            let d = st.sched.dummy_iter().last();
            if let Some(d) = d {
                let kind = if rng.chance(50) { "override" } else { "fit" };
                run(&mut st, &mut s, format!("{} {} {} {} {}", kind, veh_tok(a), veh_tok(d), m, m));
                if st.sched.is_dummy(d) && tour_nodes(&st.sched, d).contains(&m) {
                    let tracks = nw.track_count_of_maintenance_slot(ctx.n(m)) as u64;
                    for _ in 0..tracks {
                        run(&mut st, &mut s, format!("spawn {} {}", vt, m));
                    }
                    let reals: Vec<VehicleIdx> = st.sched.vehicles_iter_all().collect();
                    if !reals.is_empty() {
                        let r = *rng.pick(&reals);
                        let kind = if rng.chance(50) { "override" } else { "fit" };
                        run(&mut st, &mut s, format!("{} {} {} {} {}", kind, veh_tok(d), veh_tok(r), m, m));
                    }
                }
            }
        }
    }
    let mut done = 0;
    let mut tries = 0;
    while done < n_ops && tries < 4 * n_ops {
        tries += 1;
        if let Some(op) = next_op(ctx, &st, rng) {
            s.push_str(&format!("O {}\n", op));
            s.push_str(&exec(ctx, &mut st, &op));
            done += 1;
        }
    }
    s
}

/// arguments must refer to existing vehicles after operations were removed by shrinking
fn args_exist(st: &State, t: &[&str]) -> bool {
    let s = &st.sched;
    let ex = |x: &str| s.is_vehicle_or_dummy(parse_veh(x));
    match t[0] {
        "delete" | "rmseg" => s.is_vehicle(parse_veh(t[1])),
        "addpath" => ex(t[1]),
        "dummyspawn" => s.is_dummy(parse_veh(t[1])),
        "fit" | "override" => {
            ex(t[1]) && ex(t[2]) && t[1] != t[2] && {
                let nodes = tour_nodes(s, parse_veh(t[1]));
                let a = nodes.iter().position(|x| x.to_string() == t[3]);
                let b = nodes.iter().position(|x| x.to_string() == t[4]);
                matches!((a, b), (Some(x), Some(y)) if x <= y)
            }
        }
        "improve" => t[1..].iter().all(|x| *x == "all" || s.is_vehicle(parse_veh(x))),
        "settrans" => {
            s.is_vehicle(parse_veh(t[2]))
                && s.vehicle_type_of(parse_veh(t[2])).map(|vt| vt.0.to_string() == t[1]).unwrap_or(false)
                && t[3].parse::<usize>().map(|c| c < s.next_day_transition_of(s.vehicle_type_of(parse_veh(t[2])).unwrap()).number_of_cycles()).unwrap_or(false)
        }
        _ => true,
    }
}

pub fn rerun(ctx: &Ctx, text: &str) -> String {
    let mut st = State { sched: Schedule::empty(ctx.nw.clone()) };
    let mut s = String::new();
    s.push_str("O init\n");
    s.push_str(&exec(ctx, &mut st, "init"));
    for line in text.lines() {
        if let Some(op) = line.strip_prefix("O ") {
            let t: Vec<&str> = op.split_whitespace().collect();
            if t[0] == "init" || !args_exist(&st, &t) {
                continue;
            }
            s.push_str(&format!("O {}\n", op));
            s.push_str(&exec(ctx, &mut st, op));
        }
    }
    s
}
