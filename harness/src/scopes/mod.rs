//! Scopes: one generator/executor per group of properties.
use crate::ctx::Ctx;
use crate::inst::{gen_instance, Inst, Profile};
use crate::prng::Rng;

pub mod mcf;
pub mod net;
pub mod pipe;
pub mod sched;
pub mod search;
pub mod serve;
pub mod swaps;
pub mod tour;
pub mod tourx;
pub mod trans;
pub mod transx;

pub fn header(name: &str, scope: &str, seed: u64, k: u64, tier: &str) -> String {
    format!("CASE {} {} {} {} {}\n", name, scope, seed, k, tier)
}

pub fn generate(scope: &str, name: &str, seed: u64, k: u64, rng: &mut Rng, tier: &str) -> String {
    let head = header(name, scope, seed, k, tier);
    match scope {
        "net" => {
            let p = if rng.chance(50) { Profile::small() } else { Profile::medium() };
            let inst = gen_instance(rng, &p);
            head + &net::run(inst)
        }
        "pipe" => {
            let pick = match std::env::var("RSV_PIPE_PROFILE") {
                Ok(v) => v.parse::<u64>().unwrap_or(0), // experiments only (mutrate.sh)
                Err(_) => rng.below(20),
            };
            let many_cycles = (15..=17).contains(&pick);
            let scarce_depots = (18..=19).contains(&pick);
            let p = match pick {
                0..=1 => Profile::small(),
                18..=19 => Profile::cycle_heavy(),
                2..=3 => Profile::maint_heavy(),
                4 => Profile::fleet_heavy(),
                5..=7 => Profile::cycle_heavy(),
                10..=12 => Profile::multi_fleet(),
                15..=17 => {
                    // many rotation cycles of one type: several slots with several tracks and a short
                    // maintenance distance, so that three and more vehicles are maintained (one cycle
                    // each at first) and the transition optimiser merges most of them
                    let mut p = Profile::cycle_heavy();
                    p.max_maint = 4;
                    p
                }
                13..=14 => {
                    // reachability that is not transitive (a -> maintenance slot -> b, but not a -> b)
                    let mut p = if rng.chance(50) { Profile::maint_heavy() } else { Profile::fleet_heavy() };
                    p.non_transitive = true;
                    p
                }
                _ => Profile::medium(),
            };
            let mut inst = gen_instance(rng, &p);
            if many_cycles {
                inst.max_dist = (inst.max_dist / rng.range(2, 4)).max(300);
                for m in inst.maint.iter_mut() {
                    m.tracks = rng.range(2, 3);
                }
                while inst.maint.len() < 3 {
                    let mut m = inst.maint[0].clone();
                    m.start += crate::inst::GRID * rng.range(3, 12);
                    m.end = m.start + crate::inst::GRID * rng.range(1, 4);
                    m.loc = rng.below(inst.nlocs as u64) as usize;
                    inst.maint.push(m);
                }
            }
            if scarce_depots {
                // two or three real depots at different locations with room for one or two vehicles each:
                // most of the fleet starts at the overflow depot, also in the returned schedule
                let nd = rng.range(2, 3).min(inst.nlocs as u64) as usize;
                let mut locs: Vec<usize> = (0..inst.nlocs).collect();
                rng.shuffle(&mut locs);
                inst.depots = Some(
                    (0..nd)
                        .map(|i| crate::inst::InDepot { loc: locs[i], capacity: rng.range(1, 2), allowed: vec![(0, None)] })
                        .collect(),
                );
            }
            head + &pipe::run(&inst, &workdir(), name, tier)
        }
        "mcf" => {
            let p = match rng.below(3) {
                0 => Profile::maint_heavy(),
                1 => Profile::medium(),
                _ => Profile::small(),
            };
            let inst = gen_instance(rng, &p);
            match load_or_report(inst) {
                Err(s) => head + &s,
                Ok(ctx) => head + &ctx.inst.to_text() + &mcf::run(&ctx),
            }
        }
        "search" => {
            // instances with maintenance slots only (the pipeline runs the local search only then);
            // most of them with cost rates under which coupling a vehicle onto a served trip pays off
            let pick = match std::env::var("RSV_SEARCH_PROFILE") {
                Ok(v) => v.parse::<u64>().unwrap_or(0), // experiments only
                Err(_) => [1, 2, 2, 2, 2, 2, 1, 0][rng.below(8) as usize],
            };
            let mut p = match pick {
                0 => Profile::fleet_heavy(),
                1 => Profile::medium(),
                4 => Profile::cycle_heavy(),
                5 => Profile::multi_fleet(),
                _ => Profile::maint_heavy(),
            };
            p.maint_percent = 100;
            // one case in 25: a fleet several times larger than the network (the search needs more
            // accepted steps than the network has nodes)
            let long = pick == 9 || (std::env::var("RSV_SEARCH_PROFILE").is_err() && rng.chance(4));
            let mut inst = if long { crate::inst::long_trajectory_instance(rng) } else { gen_instance(rng, &p) };
            if !long && rng.chance(if std::env::var("RSV_SEARCH_PROFILE").is_ok() { 100 } else { 70 }) {
                inst.c_service = rng.range(0, 2);
                inst.c_dh = rng.range(5, 20);
                inst.c_idle = rng.range(0, 3);
                // superfluous maintenance visits that cost more than standing idle: the search first
                // takes a slot out of a tour and may then hitch-hike with the same vehicle
                if rng.chance(30) {
                    inst.c_maint = *rng.pick(&[30u64, 100]);
                    inst.max_dist = 30_000_000;
                }
            }
            match load_or_report(inst) {
                Err(s) => head + &s,
                Ok(ctx) => head + &ctx.inst.to_text() + &search::run(&ctx),
            }
        }
        "swaps" => {
            let p = match rng.below(3) {
                0 => Profile::maint_heavy(),
                _ => Profile::small(),
            };
            let mut inst = gen_instance(rng, &p);
            // two small depots at different locations that are exactly equally far from every other
            // location (a tie): the depot choice inside a swap is then driven by capacity alone, and a
            // switch keeps the tour distance while the legs to the neighbours in the rotation change
            if inst.nlocs >= 3 && rng.chance(60) {
                let ntypes = inst.vtypes.len();
                let a = rng.below(inst.nlocs as u64) as usize;
                let b = (a + 1 + rng.below(inst.nlocs as u64 - 1) as usize) % inst.nlocs;
                for c in 0..inst.nlocs {
                    if c != a && c != b {
                        inst.dh_dist[b][c] = inst.dh_dist[a][c];
                        inst.dh_dur[b][c] = inst.dh_dur[a][c];
                    }
                }
                let mut ds = inst.depots.take().unwrap_or_default();
                for pos in [a, b] {
                    ds.push(crate::inst::InDepot {
                        loc: inst.dh_idx[pos],
                        capacity: 1,
                        allowed: (0..ntypes).map(|t| (t, None)).collect(),
                    });
                }
                inst.depots = Some(ds);
                if rng.chance(50) {
                    inst.max_dist = 1_000_000;
                }
            }
            match load_or_report(inst) {
                Err(s) => head + &s,
                Ok(ctx) => head + &ctx.inst.to_text() + &swaps::generate(&ctx, rng, tier),
            }
        }
        "sched" => {
            let p = match rng.below(3) {
                0 => Profile::maint_heavy(),
                1 => Profile::medium(),
                _ => Profile::small(),
            };
            let mut p = p;
            p.non_transitive = rng.chance(30);
            let inst = gen_instance(rng, &p);
            match load_or_report(inst) {
                Err(s) => head + &s,
                Ok(ctx) => {
                    let n = if tier == "thorough" { rng.range(20, 150) } else { rng.range(10, 40) };
                    head + &ctx.inst.to_text() + &sched::generate(&ctx, rng, n)
                }
            }
        }
        "transx" => {
            let inst = transx::instance(k % transx::VARIANTS);
            match load_or_report(inst) {
                Err(s) => head + &s,
                Ok(ctx) => head + &ctx.inst.to_text() + &transx::generate(&ctx),
            }
        }
        "trans" => {
            let p = if rng.chance(50) { Profile::maint_heavy() } else { Profile::small() };
            let inst = gen_instance(rng, &p);
            match load_or_report(inst) {
                Err(s) => head + &s,
                Ok(ctx) => {
                    let n = if tier == "thorough" { rng.range(10, 60) } else { rng.range(5, 25) };
                    head + &ctx.inst.to_text() + &trans::generate(&ctx, rng, n)
                }
            }
        }
        "tourx" => {
            let inst = tourx::instance(k % tourx::NETWORKS);
            match load_or_report(inst) {
                Err(s) => head + &s,
                Ok(ctx) => head + &ctx.inst.to_text() + &tourx::generate(&ctx),
            }
        }
        "tour" => {
            let mut p = if rng.chance(30) { Profile::maint_heavy() } else { Profile::small() };
            p.non_transitive = rng.chance(35);
            let inst = gen_instance(rng, &p);
            match load_or_report(inst) {
                Err(s) => head + &s,
                Ok(ctx) => {
                    let n = if tier == "thorough" { rng.range(20, 120) } else { rng.range(10, 40) };
                    head + &ctx.inst.to_text() + &tour::generate(&ctx, rng, n)
                }
            }
        }
        _ => panic!("unknown scope {}", scope),
    }
}

/// re-execute the instance and operations of a case file against the current code
pub fn rerun(text: &str) -> String {
    let first = text.lines().next().unwrap_or("");
    let t: Vec<&str> = first.split_whitespace().collect();
    assert!(t.len() >= 3 && t[0] == "CASE", "not a case file");
    let scope = t[2];
    let inst = Inst::from_text(text);
    let head = format!("{}\n", first);
    match scope {
        "net" => head + &net::run(inst),
        "pipe" => head + &pipe::run(&inst, &workdir(), t[1], t.get(5).copied().unwrap_or("quick")),
        "mcf" => match load_or_report(inst) {
            Err(s) => head + &s,
            Ok(ctx) => head + &ctx.inst.to_text() + &mcf::run(&ctx),
        },
        "search" => match load_or_report(inst) {
            Err(s) => head + &s,
            Ok(ctx) => head + &ctx.inst.to_text() + &search::run(&ctx),
        },
        "swaps" => {
            // regenerated from the seed of the header (the walk depends on the real neighbourhood)
            let seed: u64 = t[3].parse().unwrap();
            let k: u64 = t[4].parse().unwrap();
            let mut rng = Rng::derive(seed, "swaps", k);
            generate("swaps", t[1], seed, k, &mut rng, t.get(5).copied().unwrap_or("quick"))
        }
        "sched" => match load_or_report(inst) {
            Err(s) => head + &s,
            Ok(ctx) => head + &ctx.inst.to_text() + &sched::rerun(&ctx, text),
        },
        "trans" | "transx" => match load_or_report(inst) {
            Err(s) => head + &s,
            Ok(ctx) => head + &ctx.inst.to_text() + &trans::rerun(&ctx, text),
        },
        "tour" | "tourx" => match load_or_report(inst) {
            Err(s) => head + &s,
            Ok(ctx) => head + &ctx.inst.to_text() + &tour::rerun(&ctx, text),
        },
        _ => panic!("unknown scope {}", scope),
    }
}

pub fn load_or_report(inst: Inst) -> Result<Ctx, String> {
    let text = inst.to_text();
    match Ctx::load(inst) {
        Ok(c) => Ok(c),
        Err(site) => Err(format!("{}X loadpanic {}\n", text, site)),
    }
}

pub fn pipe_child(case_file: &str, out: &str) {
    pipe::child(case_file, out)
}

fn workdir() -> std::path::PathBuf {
    let d = std::env::current_exe().unwrap().parent().unwrap().join("tmp");
    std::fs::create_dir_all(&d).unwrap();
    d
}
