//! scope `tour` (C12, tour half of C09): operation sequences on `Tour` values obtained through
//! the public API (`Schedule::tour_of`), arguments drawn from the current implementation state.
use crate::ctx::{dur_tok, guarded, list_tok, opt_tok, Ctx};
use crate::prng::Rng;
use model::base_types::NodeIdx;
use solution::path::Path;
use solution::segment::Segment;
use solution::tour::Tour;
use solution::Schedule;

pub struct State {
    /// registers are named by the `@id` token of the operation that created them, so that
    /// removing operations (shrinking) does not renumber the others
    pub regs: std::collections::BTreeMap<usize, Tour>,
}

fn nodes_of(ctx: &Ctx, toks: &[&str]) -> Vec<NodeIdx> {
    toks.iter().map(|t| ctx.n(t.parse::<usize>().unwrap())).collect()
}

/// executes one `O …` line (without the leading `O`), returns the `T …` result lines
pub fn exec(ctx: &Ctx, st: &mut State, op: &str) -> String {
    let mut t: Vec<&str> = op.split_whitespace().collect();
    let new_id: usize = match t.last() {
        Some(x) if x.starts_with('@') => {
            let id = x[1..].parse().unwrap();
            t.pop();
            id
        }
        _ => usize::MAX,
    };
    let nw = ctx.nw.clone();
    let mut out = String::new();
    let reg = |st: &State, s: &str| -> Tour { st.regs[&s.parse::<usize>().unwrap()].clone() };
    let push_tour = |st: &mut State, out: &mut String, tour: Tour| {
        out.push_str(&format!("T reg {} {}\n", new_id, ctx.tour_line(&tour)));
        st.regs.insert(new_id, tour);
    };
    match t[0] {
        "spawn" => {
            let vt = ctx.vt(t[1].parse().unwrap());
            let nodes = nodes_of(ctx, &t[2..]);
            let r = guarded(|| {
                let s = Schedule::empty(nw.clone());
                s.spawn_vehicle_for_path(vt, nodes).map(|(s2, v)| s2.tour_of(v).unwrap().clone())
            });
            match r {
                Ok(Ok(tour)) => push_tour(st, &mut out, tour),
                Ok(Err(_)) => out.push_str("T err\n"),
                Err(site) => out.push_str(&format!("T panic {}\n", site)),
            }
        }
        "mkdummy" => {
            // a dummy tour over the service nodes of the register's tour
            let vt = ctx.vt(t[1].parse().unwrap());
            let tour = reg(st, t[2]);
            let nodes: Vec<NodeIdx> = tour.all_non_depot_nodes_iter().collect();
            let r = guarded(|| {
                let s = Schedule::empty(nw.clone());
                let (s2, v) = s.spawn_vehicle_for_path(vt, nodes)?;
                let s3 = s2.replace_vehicle_by_dummy(v)?;
                let d = s3.dummy_iter().next().ok_or("no dummy".to_string())?;
                Ok::<Tour, String>(s3.tour_of(d).unwrap().clone())
            });
            match r {
                Ok(Ok(tour)) => push_tour(st, &mut out, tour),
                Ok(Err(_)) => out.push_str("T err\n"),
                Err(site) => out.push_str(&format!("T panic {}\n", site)),
            }
        }
        "insert" => {
            let tour = reg(st, t[1]);
            let nodes = nodes_of(ctx, &t[2..]);
            let r = guarded(|| match Path::new(nodes, nw.clone()) {
                Ok(Some(p)) => Ok(tour.insert_path(p)),
                _ => Err(()),
            });
            match r {
                Ok(Ok((new_tour, removed))) => {
                    push_tour(st, &mut out, new_tour);
                    out.push_str(&format!(
                        "T removed {}\n",
                        removed.map(|p| list_tok(p.iter().map(|x| x.idx()))).unwrap_or("-".to_string())
                    ));
                }
                Ok(Err(())) => out.push_str("T badpath\n"),
                Err(site) => out.push_str(&format!("T panic {}\n", site)),
            }
        }
        "remove" => {
            let tour = reg(st, t[1]);
            let seg = Segment::new(ctx.n(t[2].parse().unwrap()), ctx.n(t[3].parse().unwrap()));
            match guarded(|| tour.remove(seg)) {
                Ok(Ok((new_tour, removed))) => {
                    match new_tour {
                        Some(nt) => push_tour(st, &mut out, nt),
                        None => out.push_str("T none\n"),
                    }
                    out.push_str(&format!("T removed {}\n", list_tok(removed.iter().map(|x| x.idx()))));
                }
                Ok(Err(_)) => out.push_str("T err\n"),
                Err(site) => out.push_str(&format!("T panic {}\n", site)),
            }
        }
        "subpath" => {
            let tour = reg(st, t[1]);
            let seg = Segment::new(ctx.n(t[2].parse().unwrap()), ctx.n(t[3].parse().unwrap()));
            match guarded(|| tour.sub_path(seg)) {
                Ok(Ok(p)) => out.push_str(&format!("T path {}\n", list_tok(p.iter().map(|x| x.idx())))),
                Ok(Err(_)) => out.push_str("T err\n"),
                Err(site) => out.push_str(&format!("T panic {}\n", site)),
            }
        }
        "conflict" => {
            let tour = reg(st, t[1]);
            let seg = Segment::new(ctx.n(t[2].parse().unwrap()), ctx.n(t[3].parse().unwrap()));
            match guarded(|| tour.conflict(seg)) {
                Ok(p) => out.push_str(&format!(
                    "T path {}\n",
                    p.map(|p| list_tok(p.iter().map(|x| x.idx()))).unwrap_or("-".to_string())
                )),
                Err(site) => out.push_str(&format!("T panic {}\n", site)),
            }
        }
        "removable" => {
            let tour = reg(st, t[1]);
            let seg = Segment::new(ctx.n(t[2].parse().unwrap()), ctx.n(t[3].parse().unwrap()));
            match guarded(|| tour.check_removable(seg)) {
                Ok(Ok(())) => out.push_str("T ok\n"),
                Ok(Err(_)) => out.push_str("T err\n"),
                Err(site) => out.push_str(&format!("T panic {}\n", site)),
            }
        }
        "lnr" => {
            let tour = reg(st, t[1]);
            let node = ctx.n(t[2].parse().unwrap());
            match guarded(|| tour.latest_not_reaching_node(node)) {
                Ok(p) => out.push_str(&format!("T pos {}\n", opt_tok(p))),
                Err(site) => out.push_str(&format!("T panic {}\n", site)),
            }
        }
        "repstart" | "repend" => {
            let tour = reg(st, t[1]);
            let node = ctx.n(t[2].parse().unwrap());
            let r = guarded(|| if t[0] == "repstart" { tour.replace_start_depot(node) } else { tour.replace_end_depot(node) });
            match r {
                Ok(Ok(nt)) => push_tour(st, &mut out, nt),
                Ok(Err(_)) => out.push_str("T err\n"),
                Err(site) => out.push_str(&format!("T panic {}\n", site)),
            }
        }
        "overhead" => {
            let tour = reg(st, t[1]);
            let node = ctx.n(t[2].parse().unwrap());
            let f = |r: Result<Result<rapid_time::Duration, String>, String>| match r {
                Ok(Ok(d)) => dur_tok(d),
                Ok(Err(_)) => "err".to_string(),
                Err(_) => "panic".to_string(),
            };
            let a = f(guarded(|| tour.preceding_overhead(node)));
            let b = f(guarded(|| tour.subsequent_overhead(node)));
            out.push_str(&format!("T overhead {} {}\n", a, b));
        }
        other => panic!("unknown tour op {}", other),
    }
    out
}

/// a random walk along `can_reach` over non-depot nodes
pub fn random_path(ctx: &Ctx, rng: &mut Rng, vt: Option<usize>, max_len: u64) -> Vec<usize> {
    let nw = &ctx.nw;
    let cand: Vec<usize> = (0..ctx.nodes.len())
        .filter(|&i| {
            let n = nw.node(ctx.n(i));
            !n.is_depot() && (vt.is_none() || nw.compatible_with_vehicle_type(ctx.n(i), ctx.vt(vt.unwrap())))
        })
        .collect();
    if cand.is_empty() {
        return vec![];
    }
    let mut path = vec![*rng.pick(&cand)];
    let len = rng.range(1, max_len);
    while (path.len() as u64) < len {
        let last = *path.last().unwrap();
        let next: Vec<usize> = cand.iter().copied().filter(|&j| nw.can_reach(ctx.n(last), ctx.n(j))).collect();
        if next.is_empty() {
            break;
        }
        // prefer early successors so that chains get long and back-to-back
        let mut next = next;
        next.sort_by_key(|&j| crate::ctx::time_tok(nw.node(ctx.n(j)).start_time()).parse::<u64>().unwrap_or(0));
        let k = if rng.chance(60) { 0 } else { rng.below(next.len() as u64) as usize };
        path.push(next[k]);
    }
    path
}

pub fn with_depots(ctx: &Ctx, rng: &mut Rng, mut path: Vec<usize>, percent: u64) -> Vec<usize> {
    let nd = ctx.ndepots();
    if rng.chance(percent) {
        path.insert(0, 2 * rng.below(nd as u64) as usize);
    }
    if rng.chance(percent) {
        path.push(2 * rng.below(nd as u64) as usize + 1);
    }
    path
}

pub fn pick_segment(rng: &mut Rng, nodes: &[usize], allow_depots: bool, invalid_percent: u64) -> (usize, usize) {
    let n = nodes.len();
    let (lo, hi) = if allow_depots || n < 3 { (0, n - 1) } else { (1, n - 2) };
    let a = rng.range(lo as u64, hi as u64) as usize;
    let b = rng.range(a as u64, hi as u64) as usize;
    if rng.chance(invalid_percent) {
        (nodes[b], nodes[a])
    } else {
        (nodes[a], nodes[b])
    }
}

pub fn generate(ctx: &Ctx, rng: &mut Rng, n_ops: u64) -> String {
    let mut st = State { regs: Default::default() };
    let mut s = String::new();
    let ntypes = ctx.ntypes();
    let mut counter = 0usize;
    let mut do_op = |st: &mut State, s: &mut String, op: String| {
        let op = format!("{} @{}", op, counter);
        counter += 1;
        s.push_str(&format!("O {}\n", op));
        s.push_str(&exec(ctx, st, &op));
    };
    // non-transitive reachability: a -> m -> b connectable but not a -> b (m a maintenance slot).
    // `Tour::new_dummy` drops m, leaving a dummy tour whose neighbours are not connectable.
    let nn = ctx.nodes.len();
    let mut triples: Vec<(usize, usize, usize)> = vec![];
    for a in 0..nn {
        for m in 0..nn {
            for b in 0..nn {
                let (na, nm, nb) = (ctx.n(a), ctx.n(m), ctx.n(b));
                let nw = &ctx.nw;
                if nw.node(na).is_service()
                    && nw.node(nb).is_service()
                    && nw.node(nm).is_maintenance()
                    && nw.vehicle_type_for(na) == nw.vehicle_type_for(nb)
                    && nw.can_reach(na, nm)
                    && nw.can_reach(nm, nb)
                    && !nw.can_reach(na, nb)
                {
                    triples.push((a, m, b));
                }
            }
        }
    }
    // the same with a service trip in the middle: removing it from [a, x, b] must be refused
    let mut gaps: Vec<(usize, usize, usize)> = vec![];
    for a in 0..nn {
        for x in 0..nn {
            for b in 0..nn {
                let (na, nx, nb) = (ctx.n(a), ctx.n(x), ctx.n(b));
                let nw = &ctx.nw;
                if nw.node(na).is_service()
                    && nw.node(nx).is_service()
                    && nw.node(nb).is_service()
                    && nw.vehicle_type_for(na) == nw.vehicle_type_for(nb)
                    && nw.vehicle_type_for(na) == nw.vehicle_type_for(nx)
                    && nw.can_reach(na, nx)
                    && nw.can_reach(nx, nb)
                    && !nw.can_reach(na, nb)
                {
                    gaps.push((a, x, b));
                }
            }
        }
    }
    if !gaps.is_empty() && rng.chance(60) {
        let (a, x, b) = *rng.pick(&gaps);
        let vt = ctx.nw.vehicle_type_for(ctx.n(a)).0 as usize;
        do_op(&mut st, &mut s, format!("spawn {} {} {} {}", vt, a, x, b));
        if let Some(&r) = st.regs.keys().last() {
            do_op(&mut st, &mut s, format!("removable {} {} {}", r, x, x));
            do_op(&mut st, &mut s, format!("remove {} {} {}", r, x, x));
            do_op(&mut st, &mut s, format!("mkdummy {} {}", vt, r));
            if let Some(&d) = st.regs.keys().last() {
                if st.regs[&d].is_dummy() {
                    do_op(&mut st, &mut s, format!("removable {} {} {}", d, x, x));
                    do_op(&mut st, &mut s, format!("remove {} {} {}", d, x, x));
                    do_op(&mut st, &mut s, format!("subpath {} {} {}", d, a, b));
                }
            }
        }
    }
    if !triples.is_empty() && rng.chance(50) {
        let (a, m, b) = *rng.pick(&triples);
        let vt = ctx.nw.vehicle_type_for(ctx.n(a)).0 as usize;
        do_op(&mut st, &mut s, format!("spawn {} {} {} {}", vt, a, m, b));
        if let Some(&r) = st.regs.keys().last() {
            do_op(&mut st, &mut s, format!("mkdummy {} {}", vt, r));
            if let Some(&d) = st.regs.keys().last() {
                if d != r {
                    do_op(&mut st, &mut s, format!("subpath {} {} {}", d, a, b));
                    do_op(&mut st, &mut s, format!("subpath {} {} {}", d, b, b));
                    do_op(&mut st, &mut s, format!("removable {} {} {}", d, a, b));
                }
            }
        }
    }
    // tours holding two (or more) maintenance slots: the visits-maintenance flag and the
    // maintenance counter must survive losing / overriding one of them (either by `remove` or by an
    // insertion whose path is shorter than the range it replaces)
    let maints: Vec<usize> = (0..nn).filter(|&i| ctx.nw.node(ctx.n(i)).is_maintenance()).collect();
    if maints.len() >= 2 && rng.chance(60) {
        let vt = rng.below(ntypes as u64) as usize;
        let mut best: Vec<usize> = vec![];
        for _ in 0..40 {
            let p = random_path(ctx, rng, Some(vt), 6);
            let nm = p.iter().filter(|&&i| ctx.nw.node(ctx.n(i)).is_maintenance()).count();
            let bm = best.iter().filter(|&&i| ctx.nw.node(ctx.n(i)).is_maintenance()).count();
            if nm > bm || (nm == bm && p.len() > best.len()) {
                best = p;
            }
        }
        let bm = best.iter().filter(|&&i| ctx.nw.node(ctx.n(i)).is_maintenance()).count();
        if bm >= 2 {
            do_op(&mut st, &mut s, format!("spawn {} {}", vt, list_tok(best.clone())));
            if let Some(&r) = st.regs.keys().last() {
                let services: Vec<usize> = (0..nn)
                    .filter(|&i| {
                        let n = ctx.nw.node(ctx.n(i));
                        n.is_service() && ctx.nw.compatible_with_vehicle_type(ctx.n(i), ctx.vt(vt)) && !best.contains(&i)
                    })
                    .collect();
                // single service trips (shorter than most ranges they replace)
                for _ in 0..4 {
                    if services.is_empty() {
                        break;
                    }
                    let x = *rng.pick(&services);
                    do_op(&mut st, &mut s, format!("insert {} {}", r, x));
                }
                // and the removal of exactly one of the slots
                let m = *rng.pick(&best.iter().copied().filter(|&i| ctx.nw.node(ctx.n(i)).is_maintenance()).collect::<Vec<_>>());
                do_op(&mut st, &mut s, format!("remove {} {} {}", r, m, m));
            }
        }
    }
    for _ in 0..n_ops {
        if st.regs.is_empty() || rng.chance(12) {
            let vt = rng.below(ntypes as u64) as usize;
            let p = random_path(ctx, rng, Some(vt), 4);
            if p.is_empty() {
                continue;
            }
            let p = with_depots(ctx, rng, p, 25);
            do_op(&mut st, &mut s, format!("spawn {} {}", vt, list_tok(p)));
            continue;
        }
        // prefer recent registers
        let keys: Vec<usize> = st.regs.keys().copied().collect();
        let r = if rng.chance(60) { *keys.last().unwrap() } else { *rng.pick(&keys) };
        let tour = st.regs[&r].clone();
        let nodes: Vec<usize> = tour.all_nodes_iter().map(|x| x.idx() as usize).collect();
        match rng.below(100) {
            0..=34 => {
                let p = random_path(ctx, rng, None, 4);
                if p.is_empty() {
                    continue;
                }
                let p = with_depots(ctx, rng, p, 20);
                do_op(&mut st, &mut s, format!("insert {} {}", r, list_tok(p)));
            }
            35..=49 => {
                let dep = rng.chance(30);
                let (a, b) = pick_segment(rng, &nodes, dep, 10);
                do_op(&mut st, &mut s, format!("remove {} {} {}", r, a, b));
            }
            50..=64 => {
                let dep = rng.chance(40);
                let (a, b) = pick_segment(rng, &nodes, dep, 10);
                do_op(&mut st, &mut s, format!("subpath {} {} {}", r, a, b));
            }
            65..=72 => {
                let p = random_path(ctx, rng, None, 3);
                if p.is_empty() {
                    continue;
                }
                do_op(&mut st, &mut s, format!("conflict {} {} {}", r, p[0], p[p.len() - 1]));
            }
            73..=78 => {
                let (a, b) = pick_segment(rng, &nodes, true, 15);
                do_op(&mut st, &mut s, format!("removable {} {} {}", r, a, b));
            }
            79..=84 => {
                let node = rng.below(ctx.nodes.len() as u64);
                do_op(&mut st, &mut s, format!("lnr {} {}", r, node));
            }
            85..=89 => {
                let d = 2 * rng.below(ctx.ndepots() as u64);
                do_op(&mut st, &mut s, format!("repstart {} {}", r, d));
            }
            90..=94 => {
                let d = 2 * rng.below(ctx.ndepots() as u64) + 1;
                do_op(&mut st, &mut s, format!("repend {} {}", r, d));
            }
            95..=95 => {
                let node = *rng.pick(&nodes);
                do_op(&mut st, &mut s, format!("overhead {} {}", r, node));
            }
            _ => {
                if !tour.is_dummy() {
                    // a dummy tour needs service nodes of one type
                    let _ = ntypes;
                    let vt = tour
                        .all_non_depot_nodes_iter()
                        .find(|n| ctx.nw.node(*n).is_service())
                        .map(|n| ctx.nw.vehicle_type_for(n).0 as usize)
                        .unwrap_or(0);
                    do_op(&mut st, &mut s, format!("mkdummy {} {}", vt, r));
                }
            }
        }
    }
    s
}

pub fn rerun(ctx: &Ctx, text: &str) -> String {
    let mut st = State { regs: Default::default() };
    let mut s = String::new();
    for line in text.lines() {
        if let Some(op) = line.strip_prefix("O ") {
            // an operation whose register no longer exists (after shrinking) is skipped
            let t: Vec<&str> = op.split_whitespace().collect();
            let needs_reg = !matches!(t[0], "spawn");
            let reg_tok = if t[0] == "mkdummy" { t[2] } else { t.get(1).copied().unwrap_or("0") };
            if needs_reg && reg_tok.parse::<usize>().map(|r| !st.regs.contains_key(&r)).unwrap_or(true) {
                continue;
            }
            s.push_str(&format!("O {}\n", op));
            s.push_str(&exec(ctx, &mut st, op));
        }
    }
    s
}
