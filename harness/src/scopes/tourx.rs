//! scope `tourx` (C12, thorough tier): EXHAUSTIVE enumeration over a small network family —
//! three trips between two locations on a three-slot time grid (all 364 multisets), shunting
//! ∈ {0, one slot}, dead-head ∈ {0, 1, 2 slots}, dead-heads allowed / forbidden (4368 networks);
//! for every network: every valid tour over a subset of the trips (real and dummy), every path
//! (chain over a subset, with no / start / end / both depots) inserted into every tour, and every
//! ordered pair of tour nodes as a segment for remove / sub_path / check_removable.
//! Case `k` is network number `k`; nothing is random.
use crate::ctx::{list_tok, Ctx};
use crate::inst::*;
use crate::scopes::tour::{exec, State};

pub const SLOTS: u64 = 3;
pub const NETWORKS: u64 = 364 * 12;

fn multisets3(n: usize) -> Vec<[usize; 3]> {
    let mut v = vec![];
    for a in 0..n {
        for b in a..n {
            for c in b..n {
                v.push([a, b, c]);
            }
        }
    }
    v
}

pub fn instance(k: u64) -> Inst {
    let ms = multisets3(12);
    let m = ms[(k % 364) as usize];
    let cfg = k / 364; // 0..12
    let shunt = (cfg % 2) * GRID;
    let dh = ((cfg / 2) % 3) * GRID;
    let forbid = cfg / 6 == 1;
    // trip option o: origin = o / 6, dest = (o / 3) % 2, slot = o % 3
    let mut routes = vec![];
    let mut departures = vec![];
    for (i, o) in m.iter().enumerate() {
        let (origin, dest, slot) = (o / 6, (o / 3) % 2, (o % 3) as u64);
        routes.push(Route { vt: 0, segs: vec![RSeg { origin, dest, distance: 1000, duration: GRID, max_form: None }] });
        departures.push(Departure { route: i, segs: vec![DSeg { rseg: 0, departure: BASE + 2 * GRID * slot, passengers: 1, seated: 0 }] });
    }
    Inst {
        vtypes: vec![VType { capacity: 100, seats: 100, max_form: None }],
        nlocs: 2,
        depots: Some(vec![InDepot { loc: 0, capacity: 50, allowed: vec![(0, None)] }]),
        default_order: vec![],
        routes,
        departures,
        maint: vec![],
        dh_idx: vec![0, 1],
        dh_dur: vec![vec![0, dh], vec![dh, 0]],
        dh_dist: vec![vec![0, 500], vec![500, 0]],
        forbid,
        shunt_min: shunt,
        shunt_dh: 0,
        max_dist: 0,
        c_staff: 0,
        c_service: 1,
        c_maint: 0,
        c_dh: 2,
        c_idle: 1,
        render: 0,
        prefix: String::new(),
    }
}

/// all non-empty chains (w.r.t. can_reach, in index order of a time-sorted node list)
fn chains(ctx: &Ctx, nodes: &[usize]) -> Vec<Vec<usize>> {
    let mut sorted = nodes.to_vec();
    sorted.sort_by_key(|&n| crate::ctx::time_tok(ctx.nw.node(ctx.n(n)).start_time()).parse::<u64>().unwrap_or(0));
    let mut out = vec![];
    let n = sorted.len();
    for mask in 1u32..(1 << n) {
        let sel: Vec<usize> = (0..n).filter(|i| mask & (1 << i) != 0).map(|i| sorted[i]).collect();
        // every order that is a chain: with equal start times two orders are possible; try both
        // directions of the sorted order by checking the chain property only
        if sel.windows(2).all(|w| ctx.nw.can_reach(ctx.n(w[0]), ctx.n(w[1]))) {
            out.push(sel);
        }
    }
    out
}

pub fn generate(ctx: &Ctx) -> String {
    let mut st = State { regs: Default::default() };
    let mut s = String::new();
    let mut counter = 0usize;
    let mut do_op = |st: &mut State, s: &mut String, op: String| -> usize {
        let id = counter;
        let op = format!("{} @{}", op, id);
        counter += 1;
        s.push_str(&format!("O {}\n", op));
        s.push_str(&exec(ctx, st, &op));
        id
    };
    let trips: Vec<usize> = (0..ctx.nodes.len()).filter(|&i| ctx.nw.node(ctx.n(i)).is_service()).collect();
    let all_chains = chains(ctx, &trips);
    // tours: real (spawn) and dummy (mkdummy) for every chain
    let mut tours: Vec<usize> = vec![];
    for c in all_chains.iter() {
        let id = do_op(&mut st, &mut s, format!("spawn 0 {}", list_tok(c.iter())));
        if st.regs.contains_key(&id) {
            tours.push(id);
            let d = do_op(&mut st, &mut s, format!("mkdummy 0 {}", id));
            if st.regs.contains_key(&d) {
                tours.push(d);
            }
        }
    }
    let (sd, ed) = (0usize, 1usize); // start / end node of depot 0
    for &t in tours.iter() {
        let tour = st.regs[&t].clone();
        let nodes: Vec<usize> = tour.all_nodes_iter().map(|x| x.idx() as usize).collect();
        for c in all_chains.iter() {
            for variant in 0..4 {
                let mut p = c.clone();
                if variant & 1 != 0 {
                    p.insert(0, sd);
                }
                if variant & 2 != 0 {
                    p.push(ed);
                }
                do_op(&mut st, &mut s, format!("insert {} {}", t, list_tok(p.iter())));
            }
        }
        for &a in nodes.iter() {
            for &b in nodes.iter() {
                // segments must contain an activity (ArgsValid); depot-only pairs are skipped
                let (pa, pb) = (nodes.iter().position(|x| *x == a).unwrap(), nodes.iter().position(|x| *x == b).unwrap());
                let has_activity = pa <= pb && nodes[pa..=pb].iter().any(|n| !ctx.nw.node(ctx.n(*n)).is_depot());
                if pa > pb || has_activity {
                    do_op(&mut st, &mut s, format!("removable {} {} {}", t, a, b));
                    do_op(&mut st, &mut s, format!("remove {} {} {}", t, a, b));
                    do_op(&mut st, &mut s, format!("subpath {} {} {}", t, a, b));
                }
            }
        }
    }
    s
}
