//! scope `trans` (C15): operation sequences on `Transition` values over the tours of a base
//! schedule built through the public API.
use crate::ctx::{guarded, list_tok, veh_tok, parse_veh, Ctx};
use crate::prng::Rng;
use crate::scopes::tour::{random_path, with_depots};
use im::HashMap as ImHashMap;
use model::base_types::{NodeIdx, VehicleIdx};
use solution::tour::Tour;
use solution::transition::Transition;
use solution::Schedule;
use std::collections::BTreeMap;

pub struct State {
    pub vt: usize,
    pub sched: Option<Schedule>,
    /// current tours of the type's vehicles (updated by `tupdate`)
    pub tours: ImHashMap<VehicleIdx, Tour>,
    pub regs: BTreeMap<usize, (Transition, Vec<VehicleIdx>)>, // transition, detached vehicles
}

fn take_id(t: &mut Vec<&str>) -> usize {
    match t.last() {
        Some(x) if x.starts_with('@') => {
            let id = x[1..].parse().unwrap();
            t.pop();
            id
        }
        _ => usize::MAX,
    }
}

pub fn exec(ctx: &Ctx, st: &mut State, op: &str) -> String {
    let mut t: Vec<&str> = op.split_whitespace().collect();
    let id = take_id(&mut t);
    let nw = ctx.nw.clone();
    let mut out = String::new();
    let dump_reg = |out: &mut String, id: usize, tr: &Transition, vt: usize| {
        out.push_str(&format!("T treg {}\n", id));
        out.push_str(&ctx.transition_lines("T", vt, tr));
    };
    match t[0] {
        "tbase" => {
            // O tbase <vt> | path | path ...
            let vt: usize = t[1].parse().unwrap();
            st.vt = vt;
            let mut sched = Schedule::empty(nw.clone());
            let rest = t[2..].join(" ");
            for p in rest.split('|').map(|x| x.trim()).filter(|x| !x.is_empty()) {
                let nodes: Vec<NodeIdx> = p.split_whitespace().map(|x| ctx.n(x.parse().unwrap())).collect();
                let s2 = sched.clone();
                if let Ok(Ok((s, _))) = guarded(|| s2.spawn_vehicle_for_path(ctx.vt(vt), nodes)) {
                    sched = s;
                }
            }
            st.tours = ImHashMap::new();
            let ids: Vec<VehicleIdx> = sched.vehicles_iter(ctx.vt(vt)).collect();
            for v in ids.iter() {
                st.tours.insert(*v, sched.tour_of(*v).unwrap().clone());
                out.push_str(&format!("T tour {} {}\n", veh_tok(*v), ctx.tour_line(sched.tour_of(*v).unwrap())));
            }
            out.push_str(&format!("T vehicles {}\n", list_tok(ids.iter().map(|v| veh_tok(*v)))));
            st.sched = Some(sched);
        }
        "tnew" => {
            let mut ids: Vec<VehicleIdx> = st.tours.keys().copied().collect();
            ids.sort();
            let tours = st.tours.clone();
            match guarded(|| Transition::new_fast(&ids, &tours, &nw)) {
                Ok(tr) => {
                    dump_reg(&mut out, id, &tr, st.vt);
                    st.regs.insert(id, (tr, vec![]));
                }
                Err(site) => out.push_str(&format!("T panic {}\n", site)),
            }
        }
        "tsched" => {
            let tr = st.sched.as_ref().unwrap().next_day_transition_of(ctx.vt(st.vt)).clone();
            dump_reg(&mut out, id, &tr, st.vt);
            st.regs.insert(id, (tr, vec![]));
        }
        "tmove" | "tremove" | "taddend" | "taddown" | "tupdate" | "t3opt" => {
            let r: usize = t[1].parse().unwrap();
            let (tr, detached) = st.regs[&r].clone();
            let tours = st.tours.clone();
            let empty: ImHashMap<VehicleIdx, &Tour> = ImHashMap::new();
            let mut det = detached.clone();
            let mut new_tour_line = String::new();
            let res: Result<Transition, String> = match t[0] {
                "tmove" => {
                    let v = parse_veh(t[2]);
                    let ci: usize = t[3].parse().unwrap();
                    guarded(|| tr.move_vehicle(v, ci, &tours, &nw))
                }
                "tremove" => {
                    let v = parse_veh(t[2]);
                    det.push(v);
                    guarded(|| tr.remove_vehicle(v, &empty, &tours, &nw))
                }
                "taddend" => {
                    let v = parse_veh(t[2]);
                    let ci: usize = t[3].parse().unwrap();
                    det.retain(|x| *x != v);
                    guarded(|| tr.add_vehicle_at_the_end(v, ci, &empty, &tours, &nw))
                }
                "taddown" => {
                    let v = parse_veh(t[2]);
                    det.retain(|x| *x != v);
                    let tour = tours.get(&v).unwrap().clone();
                    guarded(|| tr.add_vehicle_to_own_cycle(v, &tour, &nw))
                }
                "tupdate" => {
                    let v = parse_veh(t[2]);
                    let d = ctx.n(t[3].parse().unwrap());
                    let old = tours.get(&v).unwrap().clone();
                    let new_tour = if nw.node(d).is_start_depot() { old.replace_start_depot(d) } else { old.replace_end_depot(d) };
                    match new_tour {
                        Ok(nt) => {
                            let r = guarded(|| tr.update_vehicle(v, &nt, &empty, &tours, &nw));
                            if r.is_ok() {
                                new_tour_line = format!("T tour {} {}\n", veh_tok(v), ctx.tour_line(&nt));
                                st.tours.insert(v, nt);
                            }
                            r
                        }
                        Err(_) => Err("badtour".to_string()),
                    }
                }
                _ => {
                    let ci: usize = t[2].parse().unwrap();
                    let (i, j, k): (usize, usize, usize) = (t[3].parse().unwrap(), t[4].parse().unwrap(), t[5].parse().unwrap());
                    guarded(|| {
                        let c = tr.get_cycle(ci).three_opt(i, j, k, &tours, &nw);
                        tr.replace_cycle(ci, c)
                    })
                }
            };
            match res {
                Ok(ntr) => {
                    out.push_str(&new_tour_line);
                    dump_reg(&mut out, id, &ntr, st.vt);
                    st.regs.insert(id, (ntr, det));
                }
                Err(site) => out.push_str(&format!("T panic {}\n", site)),
            }
        }
        "tupdate2" => {
            // two vehicles updated in a row with the "updated tours first" overlay, as the schedule
            // modifications do: O tupdate2 r v1 d1 v2 d2
            let r: usize = t[1].parse().unwrap();
            let (tr, detached) = st.regs[&r].clone();
            let old_tours = st.tours.clone();
            let (v1, v2) = (parse_veh(t[2]), parse_veh(t[4]));
            let (d1, d2) = (ctx.n(t[3].parse().unwrap()), ctx.n(t[5].parse().unwrap()));
            let mk = |v: VehicleIdx, d: NodeIdx| {
                let old = old_tours.get(&v).unwrap().clone();
                if nw.node(d).is_start_depot() { old.replace_start_depot(d) } else { old.replace_end_depot(d) }
            };
            match (mk(v1, d1), mk(v2, d2)) {
                (Ok(n1), Ok(n2)) => {
                    let res = guarded(|| {
                        let mut updated: ImHashMap<VehicleIdx, &Tour> = ImHashMap::new();
                        let t1 = tr.update_vehicle(v1, &n1, &updated, &old_tours, &nw);
                        updated.insert(v1, &n1);
                        t1.update_vehicle(v2, &n2, &updated, &old_tours, &nw)
                    });
                    match res {
                        Ok(ntr) => {
                            out.push_str(&format!("T tour {} {}\n", veh_tok(v1), ctx.tour_line(&n1)));
                            out.push_str(&format!("T tour {} {}\n", veh_tok(v2), ctx.tour_line(&n2)));
                            st.tours.insert(v1, n1);
                            st.tours.insert(v2, n2);
                            dump_reg(&mut out, id, &ntr, st.vt);
                            st.regs.insert(id, (ntr, detached));
                        }
                        Err(site) => out.push_str(&format!("T panic {}\n", site)),
                    }
                }
                _ => out.push_str("T err\n"),
            }
        }
        "tupdrm" => {
            // one batch with the "updated tours first" overlay: v1 gets a new tour, then v2 leaves
            // the transition: O tupdrm r v1 d1 v2
            let r: usize = t[1].parse().unwrap();
            let (tr, detached) = st.regs[&r].clone();
            let old_tours = st.tours.clone();
            let (v1, v2) = (parse_veh(t[2]), parse_veh(t[4]));
            let d1 = ctx.n(t[3].parse().unwrap());
            let old = old_tours.get(&v1).unwrap().clone();
            let n1 = if nw.node(d1).is_start_depot() { old.replace_start_depot(d1) } else { old.replace_end_depot(d1) };
            match n1 {
                Ok(n1) => {
                    let res = guarded(|| {
                        let mut updated: ImHashMap<VehicleIdx, &Tour> = ImHashMap::new();
                        let t1 = tr.update_vehicle(v1, &n1, &updated, &old_tours, &nw);
                        updated.insert(v1, &n1);
                        t1.remove_vehicle(v2, &updated, &old_tours, &nw)
                    });
                    match res {
                        Ok(ntr) => {
                            out.push_str(&format!("T tour {} {}\n", veh_tok(v1), ctx.tour_line(&n1)));
                            st.tours.insert(v1, n1);
                            dump_reg(&mut out, id, &ntr, st.vt);
                            let mut det = detached;
                            det.push(v2);
                            st.regs.insert(id, (ntr, det));
                        }
                        Err(site) => out.push_str(&format!("T panic {}\n", site)),
                    }
                }
                _ => out.push_str("T err\n"),
            }
        }
        "tsucc" => {
            let r: usize = t[1].parse().unwrap();
            let v = parse_veh(t[2]);
            let (tr, _) = st.regs[&r].clone();
            match guarded(|| tr.get_successor_of(v)) {
                Ok(s) => out.push_str(&format!("T succ {}\n", veh_tok(s))),
                Err(site) => out.push_str(&format!("T panic {}\n", site)),
            }
        }
        other => panic!("unknown trans op {}", other),
    }
    out
}

pub fn generate(ctx: &Ctx, rng: &mut Rng, n_ops: u64) -> String {
    let mut st = State { vt: 0, sched: None, tours: ImHashMap::new(), regs: BTreeMap::new() };
    let mut s = String::new();
    let mut counter = 0usize;
    let mut do_op = |st: &mut State, s: &mut String, op: String| {
        let op = format!("{} @{}", op, counter);
        counter += 1;
        s.push_str(&format!("O {}\n", op));
        s.push_str(&exec(ctx, st, &op));
    };
    // base schedule: 2-6 vehicles of one type, many of them visiting a maintenance slot
    let vt = rng.below(ctx.ntypes() as u64) as usize;
    let nveh = rng.range(2, 6);
    let maint: Vec<usize> = ctx.nw.maintenance_nodes().map(|x| x.idx() as usize).collect();
    let mut paths = vec![];
    for _ in 0..nveh {
        let mut p = random_path(ctx, rng, Some(vt), 3);
        if p.is_empty() {
            continue;
        }
        p.retain(|n| !ctx.nw.node(ctx.n(*n)).is_maintenance());
        if p.is_empty() {
            continue;
        }
        // append a maintenance slot reachable from the last node
        if !maint.is_empty() && rng.chance(55) {
            let last = *p.last().unwrap();
            let cand: Vec<usize> = maint.iter().copied().filter(|m| ctx.nw.can_reach(ctx.n(last), ctx.n(*m))).collect();
            if !cand.is_empty() {
                p.push(*rng.pick(&cand));
            }
        }
        let p = with_depots(ctx, rng, p, 35);
        paths.push(list_tok(p));
    }
    do_op(&mut st, &mut s, format!("tbase {} | {}", vt, paths.join(" | ")));
    if st.tours.is_empty() {
        return s;
    }
    do_op(&mut st, &mut s, if rng.chance(50) { "tnew".to_string() } else { "tsched".to_string() });
    for _ in 0..n_ops {
        let keys: Vec<usize> = st.regs.keys().copied().collect();
        if keys.is_empty() {
            break;
        }
        let r = if rng.chance(75) { *keys.last().unwrap() } else { *rng.pick(&keys) };
        let (tr, detached) = st.regs[&r].clone();
        let ncycles = tr.number_of_cycles();
        let mut members: Vec<VehicleIdx> = tr.cycles_iter().flat_map(|c| c.iter()).collect();
        members.sort();
        match rng.below(100) {
            0..=29 => {
                if members.is_empty() || ncycles == 0 {
                    continue;
                }
                let v = *rng.pick(&members);
                // moving into the own cycle is what the search never does; other cycles incl. empty ones
                let own = tr.cycles_iter().position(|c| c.iter().any(|x| x == v)).unwrap();
                let mut targets: Vec<usize> = (0..ncycles).filter(|c| *c != own).collect();
                if targets.is_empty() {
                    targets.push(own);
                }
                let ci = *rng.pick(&targets);
                do_op(&mut st, &mut s, format!("tmove {} {} {}", r, veh_tok(v), ci));
            }
            30..=44 => {
                if members.is_empty() {
                    continue;
                }
                let v = *rng.pick(&members);
                do_op(&mut st, &mut s, format!("tremove {} {}", r, veh_tok(v)));
            }
            45..=59 => {
                if detached.is_empty() {
                    continue;
                }
                let v = *rng.pick(&detached);
                if rng.chance(50) && ncycles > 0 {
                    let ci = rng.below(ncycles as u64);
                    do_op(&mut st, &mut s, format!("taddend {} {} {}", r, veh_tok(v), ci));
                } else {
                    do_op(&mut st, &mut s, format!("taddown {} {}", r, veh_tok(v)));
                }
            }
            60..=74 => {
                // only for registers whose members cover all current tours (no detached vehicles)
                if members.is_empty() || !detached.is_empty() {
                    continue;
                }
                let v = *rng.pick(&members);
                let nd = ctx.ndepots() as u64;
                let d = if rng.chance(50) { 2 * rng.below(nd) + 1 } else { 2 * rng.below(nd) };
                if members.len() >= 2 && rng.chance(60) {
                    // a neighbour in the same cycle if there is one
                    let cyc: Vec<VehicleIdx> = tr.cycles_iter().find(|c| c.iter().any(|x| x == v)).map(|c| c.iter().collect()).unwrap_or_default();
                    let others: Vec<VehicleIdx> = if cyc.len() >= 2 && rng.chance(80) { cyc.into_iter().filter(|x| *x != v).collect() } else { members.iter().copied().filter(|x| *x != v).collect() };
                    let v2 = *rng.pick(&others);
                    let d2 = if rng.chance(50) { 2 * rng.below(nd) + 1 } else { 2 * rng.below(nd) };
                    if rng.chance(35) {
                        do_op(&mut st, &mut s, format!("tupdrm {} {} {} {}", r, veh_tok(v), d, veh_tok(v2)));
                    } else {
                        do_op(&mut st, &mut s, format!("tupdate2 {} {} {} {} {}", r, veh_tok(v), d, veh_tok(v2), d2));
                    }
                } else {
                    do_op(&mut st, &mut s, format!("tupdate {} {} {}", r, veh_tok(v), d));
                }
                // a tour changed: older registers are stale, keep only the new one
                let last = *st.regs.keys().last().unwrap();
                st.regs.retain(|k, _| *k == last);
            }
            75..=89 => {
                if !detached.is_empty() {
                    continue;
                }
                let big: Vec<usize> = (0..ncycles).filter(|c| tr.get_cycle(*c).len() >= 3).collect();
                if big.is_empty() {
                    continue;
                }
                let ci = *rng.pick(&big);
                let n = tr.get_cycle(ci).len() as u64;
                let i = rng.below(n - 2);
                let j = rng.range(i + 1, n - 2);
                let k = rng.range(j + 1, n - 1);
                do_op(&mut st, &mut s, format!("t3opt {} {} {} {} {}", r, ci, i, j, k));
            }
            _ => {
                if members.is_empty() {
                    continue;
                }
                let v = *rng.pick(&members);
                do_op(&mut st, &mut s, format!("tsucc {} {}", r, veh_tok(v)));
            }
        }
    }
    s
}

pub fn rerun(ctx: &Ctx, text: &str) -> String {
    let mut st = State { vt: 0, sched: None, tours: ImHashMap::new(), regs: BTreeMap::new() };
    let mut s = String::new();
    for line in text.lines() {
        if let Some(op) = line.strip_prefix("O ") {
            let t: Vec<&str> = op.split_whitespace().collect();
            let needs_reg = !matches!(t[0], "tbase" | "tnew" | "tsched");
            if needs_reg && t.get(1).and_then(|x| x.parse::<usize>().ok()).map(|r| !st.regs.contains_key(&r)).unwrap_or(true) {
                continue;
            }
            if t[0] != "tbase" && st.sched.is_none() {
                continue;
            }
            // arguments must still be valid after operations were removed (shrinking)
            if needs_reg {
                let r: usize = t[1].parse().unwrap();
                let (tr, detached) = st.regs[&r].clone();
                let members: Vec<VehicleIdx> = tr.cycles_iter().flat_map(|c| c.iter()).collect();
                let ok = match t[0] {
                    "tmove" | "tremove" | "tsucc" | "tupdate" => members.contains(&parse_veh(t[2])) && (t[0] != "tupdate" || detached.is_empty()),
                    "tupdrm" => members.contains(&parse_veh(t[2])) && members.contains(&parse_veh(t[4])) && t[2] != t[4] && detached.is_empty(),
                    "tupdate2" => members.contains(&parse_veh(t[2])) && members.contains(&parse_veh(t[4])) && t[2] != t[4] && detached.is_empty(),
                    "taddend" | "taddown" => detached.contains(&parse_veh(t[2])),
                    "t3opt" => detached.is_empty(),
                    _ => true,
                };
                let ok = ok
                    && match t[0] {
                        "tmove" | "taddend" => t[3].parse::<usize>().map(|c| c < tr.number_of_cycles()).unwrap_or(false),
                        "t3opt" => t[2].parse::<usize>().map(|c| c < tr.number_of_cycles()).unwrap_or(false),
                        _ => true,
                    };
                if !ok {
                    continue;
                }
            }
            s.push_str(&format!("O {}\n", op));
            s.push_str(&exec(ctx, &mut st, op));
        }
    }
    s
}
