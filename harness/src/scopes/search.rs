//! scope `search` (C08): the real local search (`build_local_search_solver(..).solve`) from the
//! real start solution, in-process; then the search is run AGAIN on its own result with a fresh
//! solver (must accept nothing), and a fresh neighbourhood of the result is enumerated (no
//! candidate may be strictly better). Only objective tuples are written.
use crate::ctx::{guarded, Ctx};
use rapid_solve::heuristics::common::ParallelNeighborhood;
use rapid_solve::heuristics::Solver;
use rapid_time::Duration;
use rayon::iter::ParallelIterator;
use solution::Schedule;
use solver::local_search::neighborhood::swaps::SwapInfo;
use solver::local_search::neighborhood::RSSchedParallelNeighborhood;
use solver::local_search::ScheduleWithInfo;
use solver::min_cost_flow_solver::MinCostFlowSolver;
use std::fmt::Write;

fn obj(s: &Schedule) -> String {
    let up = s.unserved_passengers();
    format!("{} {} {} {}", up.0 + up.1, s.maintenance_violation(), s.number_of_vehicles(), s.costs())
}

fn steps_of(events: Vec<solver::verif::Event>) -> Vec<String> {
    events
        .iter()
        .filter_map(|e| match e {
            solver::verif::Event::Step(sch) => Some(obj(sch)),
            _ => None,
        })
        .collect()
}

pub fn run(ctx: &Ctx) -> String {
    let mut s = String::new();
    let nw = ctx.nw.clone();
    let start = match guarded(|| MinCostFlowSolver::initialize(nw).solve().improve_depots(None)) {
        Ok(x) => x,
        Err(site) => {
            writeln!(s, "Q panic start {}", site).unwrap();
            return s;
        }
    };
    let _ = solver::verif::take();
    writeln!(s, "Q start {}", obj(&start)).unwrap();
    writeln!(s, "Q maint {}", ctx.nw.maintenance_nodes().count()).unwrap();
    let nw1 = ctx.nw.clone();
    let st = start.clone();
    let result = match guarded(move || {
        let solver = solver::local_search::build_local_search_solver(nw1);
        let r = solver.solve(ScheduleWithInfo::new(st, SwapInfo::NoSwap, "start".to_string()));
        r.solution().get_schedule().clone()
    }) {
        Ok(x) => x,
        Err(site) => {
            writeln!(s, "Q panic search {}", site).unwrap();
            return s;
        }
    };
    for (k, o) in steps_of(solver::verif::take()).iter().enumerate() {
        writeln!(s, "Q step {} {}", k, o).unwrap();
    }
    writeln!(s, "Q result {}", obj(&result)).unwrap();
    // the search again, on its own result, with a fresh solver
    let nw2 = ctx.nw.clone();
    let r1 = result.clone();
    match guarded(move || {
        let solver = solver::local_search::build_local_search_solver(nw2);
        let r = solver.solve(ScheduleWithInfo::new(r1, SwapInfo::NoSwap, "again".to_string()));
        r.solution().get_schedule().clone()
    }) {
        Ok(again) => {
            let st2 = steps_of(solver::verif::take());
            writeln!(s, "Q rerun-steps {}", st2.len()).unwrap();
            writeln!(s, "Q rerun-result {}", obj(&again)).unwrap();
            writeln!(s, "Q rerun-same-tours {}", (ctx.dump_schedule("S", &again) == ctx.dump_schedule("S", &result)) as u8).unwrap();
        }
        Err(site) => {
            writeln!(s, "Q panic rerun {}", site).unwrap();
        }
    }
    // a fresh neighbourhood of the result (the parameters of build_local_search_solver)
    let nb = RSSchedParallelNeighborhood::new(Some(Duration::new("3:00:00")), Some(Duration::new("0:10:00")), ctx.nw.clone());
    let base = ScheduleWithInfo::new(result.clone(), SwapInfo::NoSwap, "result".to_string());
    match guarded(|| nb.neighbors_of(&base).map(|c| c.get_schedule().clone()).collect::<Vec<Schedule>>()) {
        Ok(cands) => {
            writeln!(s, "Q fresh-candidates {}", cands.len()).unwrap();
            for c in cands.iter() {
                writeln!(s, "Q cand {}", obj(c)).unwrap();
            }
        }
        Err(site) => {
            writeln!(s, "Q panic neighbourhood {}", site).unwrap();
        }
    }
    let _ = solver::verif::take();
    s
}
