//! scope `swaps` (C11): arbitrary (not only improving) walks through the real local-search
//! neighbourhood; every candidate of every visited schedule is dumped in full.
use crate::ctx::{guarded, Ctx};
use crate::prng::Rng;
use crate::scopes::sched;
use rapid_solve::heuristics::common::ParallelNeighborhood;
use rayon::iter::ParallelIterator;
use rapid_time::Duration;
use solution::Schedule;
use solver::local_search::neighborhood::swaps::SwapInfo;
use solver::local_search::neighborhood::RSSchedParallelNeighborhood;
use solver::local_search::ScheduleWithInfo;
use solver::min_cost_flow_solver::MinCostFlowSolver;

pub fn start_schedule(ctx: &Ctx, rng: &mut Rng, s: &mut String) -> Option<Schedule> {
    if rng.chance(65) {
        let nw = ctx.nw.clone();
        match guarded(|| MinCostFlowSolver::initialize(nw).solve().improve_depots(None)) {
            Ok(sch) => {
                let _ = solver::verif::take();
                s.push_str("O start flow\n");
                Some(sch)
            }
            Err(site) => {
                s.push_str(&format!("O start flow\nT panic {}\n", site));
                None
            }
        }
    } else {
        // a random modification history
        let mut st = sched::State { sched: Schedule::empty(ctx.nw.clone()) };
        let n = rng.range(5, 25);
        let mut done = 0;
        let mut tries = 0;
        s.push_str("O start history\n");
        while done < n && tries < 4 * n {
            tries += 1;
            if let Some(op) = sched::next_op(ctx, &st, rng) {
                s.push_str(&format!("H {}\n", op));
                let _ = sched::exec(ctx, &mut st, &op);
                done += 1;
            }
        }
        Some(st.sched)
    }
}

pub fn generate(ctx: &Ctx, rng: &mut Rng, tier: &str) -> String {
    let mut s = String::new();
    let base0 = match start_schedule(ctx, rng, &mut s) {
        Some(b) => b,
        None => return s,
    };
    s.push_str(&ctx.dump_schedule("S", &base0));
    let limit = if rng.chance(50) { Some(Duration::new("3:00:00")) } else { None };
    let overhead = if rng.chance(50) { Some(Duration::new("0:10:00")) } else { None };
    let nb = RSSchedParallelNeighborhood::new(limit, overhead, ctx.nw.clone());
    s.push_str(&format!(
        "T nbparams {} {}\n",
        limit.map(|d| d.in_sec().unwrap().to_string()).unwrap_or("-".to_string()),
        overhead.map(|d| d.in_sec().unwrap().to_string()).unwrap_or("-".to_string())
    ));
    let steps = if tier == "thorough" { rng.range(5, 20) } else { rng.range(2, 6) };
    let steer = rng.chance(50);
    let max_dump = if tier == "thorough" { 200 } else { 80 };
    let mut base = ScheduleWithInfo::new(base0, SwapInfo::NoSwap, "start".to_string());
    for step in 0..steps {
        s.push_str(&format!("O neighbors {}\n", step));
        let info = match base.get_last_swap_info() {
            SwapInfo::SpawnVehicleForMaintenance(v) => format!("spawn {}", crate::ctx::veh_tok(v)),
            SwapInfo::PathExchange(v) => format!("exchange {}", crate::ctx::veh_tok(v)),
            SwapInfo::AddTripForHitchHiking(v) => format!("hitch {}", crate::ctx::veh_tok(v)),
            SwapInfo::RemoveSingleNode(v) => format!("remove {}", crate::ctx::veh_tok(v)),
            SwapInfo::NoSwap => "none -".to_string(),
        };
        s.push_str(&format!("T baseinfo {}\n", info));
        s.push_str(&ctx.dump_schedule("S", base.get_schedule()).replace("S endsched", "S endbase"));
        let before = ctx.dump_schedule("B", base.get_schedule());
        let res = guarded(|| nb.neighbors_of(&base).collect::<Vec<ScheduleWithInfo>>());
        let after = ctx.dump_schedule("B", base.get_schedule());
        s.push_str(&format!("T baseunchanged {}\n", (before == after) as u8));
        match res {
            Err(site) => {
                s.push_str(&format!("T panic {}\n", site));
                break;
            }
            Ok(cands) => {
                s.push_str(&format!("T candidates {}\n", cands.len()));
                if cands.is_empty() {
                    break;
                }
                // dump (a sample of) the candidates in full
                let stride = (cands.len() + max_dump - 1) / max_dump;
                let offset = rng.below(stride as u64) as usize;
                // hand-overs from a dummy tour are rare and checked less by the modifications: always dumped
                let mut extra = 0;
                for (k, c) in cands.iter().enumerate() {
                    let from_dummy = c.get_print_text().contains("from dummy");
                    if k % stride == offset || (from_dummy && extra < 40) {
                        if k % stride != offset {
                            extra += 1;
                        }
                        s.push_str(&format!("T cand {} {}\n", k, c.get_print_text().replace(' ', "_")));
                        s.push_str(&ctx.dump_schedule("S", c.get_schedule()));
                    }
                }
                // half of the steps are steered towards states the random walk rarely reaches: maintenance
                // slots held by dummy tours, and such slots filling up again
                let next = if steer && rng.chance(60) {
                    let score = |c: &ScheduleWithInfo| -> usize {
                        let sch = c.get_schedule();
                        let mut sc = 0;
                        for d in sch.dummy_iter() {
                            if let Ok(t) = sch.tour_of(d) {
                                for n in t.all_nodes_iter() {
                                    if ctx.nw.node(n).is_maintenance() {
                                        sc += 10 + 3 * sch.train_formation_of(n).vehicle_count() as usize;
                                    }
                                }
                            }
                        }
                        sc
                    };
                    let best = cands.iter().map(|c| score(c)).max().unwrap_or(0);
                    let idx: Vec<usize> = (0..cands.len()).filter(|&k| score(&cands[k]) == best).collect();
                    idx[rng.below(idx.len() as u64) as usize]
                } else {
                    rng.below(cands.len() as u64) as usize
                };
                s.push_str(&format!("T chosen {}\n", next));
                base = cands[next].clone();
            }
        }
    }
    s
}
