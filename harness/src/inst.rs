//! Abstract instance (ids are positions), its JSON rendering for the real loader, its text
//! rendering for the Lean model, and the structured generator.
use crate::prng::Rng;
use serde_json::{json, Value};

#[derive(Clone, Debug, PartialEq)]
pub struct VType {
    pub capacity: u64,
    pub seats: u64,
    pub max_form: Option<u64>,
}
#[derive(Clone, Debug, PartialEq)]
pub struct InDepot {
    pub loc: usize,
    pub capacity: u64,
    pub allowed: Vec<(usize, Option<u64>)>,
}
#[derive(Clone, Debug, PartialEq)]
pub struct RSeg {
    pub origin: usize,
    pub dest: usize,
    pub distance: u64,
    pub duration: u64,
    pub max_form: Option<u64>,
}
#[derive(Clone, Debug, PartialEq)]
pub struct Route {
    pub vt: usize,
    pub segs: Vec<RSeg>,
}
#[derive(Clone, Debug, PartialEq)]
pub struct DSeg {
    pub rseg: usize,
    pub departure: u64,
    pub passengers: u64,
    pub seated: u64,
}
#[derive(Clone, Debug, PartialEq)]
pub struct Departure {
    pub route: usize,
    pub segs: Vec<DSeg>,
}
#[derive(Clone, Debug, PartialEq)]
pub struct Maint {
    pub loc: usize,
    pub start: u64,
    pub end: u64,
    pub tracks: u64,
}

#[derive(Clone, Debug, PartialEq)]
pub struct Inst {
    pub vtypes: Vec<VType>,
    pub nlocs: usize,
    pub depots: Option<Vec<InDepot>>,
    /// realised order of default depots (filled in after loading; empty before)
    pub default_order: Vec<usize>,
    pub routes: Vec<Route>,
    pub departures: Vec<Departure>,
    pub maint: Vec<Maint>,
    pub dh_idx: Vec<usize>,
    pub dh_dur: Vec<Vec<u64>>,
    pub dh_dist: Vec<Vec<u64>>,
    pub forbid: bool,
    pub shunt_min: u64,
    pub shunt_dh: u64,
    pub max_dist: u64,
    pub c_staff: u64,
    pub c_service: u64,
    pub c_maint: u64,
    pub c_dh: u64,
    pub c_idle: u64,
    /// JSON rendering choices (do not change the meaning): bit0 omit `forbidDeadHeadTrips` when
    /// false, bit1 write `null` instead of omitting optional keys, bit2 omit `maintenanceSlots`
    /// when empty, bit3 omit `parameters.maintenance` when maxDist = 0, bit4 omit
    /// `costs.maintenance` when 0, bit5 add ignored keys (dayLimit, dayLimitThreshold),
    /// bit6 route-segment ids are only unique per route (`s<j>` in every route; the loader resolves
    /// `routeSegment` inside the departure's own route)
    pub render: u64,
    /// id namespace (C18: disjoint ids per request)
    pub prefix: String,
}

// ------------------------------------------------------------------------------------------
// time: model seconds are seconds since 2024-01-01T00:00:00 (2024 is a leap year)
const MDAYS: [u64; 12] = [31, 29, 31, 30, 31, 30, 31, 31, 30, 31, 30, 31];

pub fn secs_to_iso(secs: u64) -> String {
    let mut day = secs / 86400;
    let rem = secs % 86400;
    let mut month = 0;
    while month < 12 && day >= MDAYS[month] {
        day -= MDAYS[month];
        month += 1;
    }
    assert!(month < 12, "time outside 2024");
    format!(
        "2024-{:02}-{:02}T{:02}:{:02}:{:02}",
        month + 1,
        day + 1,
        rem / 3600,
        (rem % 3600) / 60,
        rem % 60
    )
}

/// inverse of `secs_to_iso`; `EARLIEST`/`LATEST` are returned as `Err`
pub fn iso_to_secs(s: &str) -> Result<u64, String> {
    let b: Vec<&str> = s.split(&['T', '-', ':'][..]).collect();
    if b.len() != 6 {
        return Err(s.to_string());
    }
    let p = |x: &str| x.parse::<u64>().map_err(|_| s.to_string());
    let (y, mo, d, h, mi, se) = (p(b[0])?, p(b[1])?, p(b[2])?, p(b[3])?, p(b[4])?, p(b[5])?);
    if y != 2024 || !(1..=12).contains(&mo) {
        return Err(s.to_string());
    }
    let mut days = d - 1;
    for m in 0..(mo - 1) as usize {
        days += MDAYS[m];
    }
    Ok(days * 86400 + h * 3600 + mi * 60 + se)
}

// ------------------------------------------------------------------------------------------
impl Inst {
    pub fn vt_id(&self, i: usize) -> String {
        format!("{}vt{}", self.prefix, i)
    }
    pub fn loc_id(&self, i: usize) -> String {
        format!("{}L{}", self.prefix, i)
    }
    pub fn depot_id(&self, i: usize) -> String {
        format!("{}dep{}", self.prefix, i)
    }
    pub fn route_id(&self, i: usize) -> String {
        format!("{}r{}", self.prefix, i)
    }
    pub fn rseg_id(&self, r: usize, j: usize) -> String {
        if self.render & 64 != 0 {
            format!("{}s{}", self.prefix, j)
        } else {
            format!("{}r{}_s{}", self.prefix, r, j)
        }
    }
    pub fn dep_id(&self, i: usize) -> String {
        format!("{}d{}", self.prefix, i)
    }
    pub fn dseg_id(&self, d: usize, j: usize) -> String {
        format!("{}d{}_s{}", self.prefix, d, j)
    }
    pub fn maint_id(&self, i: usize) -> String {
        format!("{}m{}", self.prefix, i)
    }

    pub fn n_dsegs(&self) -> usize {
        self.departures.iter().map(|d| d.segs.len()).sum()
    }

    pub fn to_json(&self) -> Value {
        let nulls = self.render & 2 != 0;
        let opt = |v: Option<u64>| -> Option<Value> { v.map(|x| json!(x)) };
        let mut root = serde_json::Map::new();
        let put_opt = |m: &mut serde_json::Map<String, Value>, k: &str, v: Option<Value>| {
            match v {
                Some(x) => {
                    m.insert(k.to_string(), x);
                }
                None => {
                    if nulls {
                        m.insert(k.to_string(), Value::Null);
                    }
                }
            }
        };
        let extra = self.render & 32 != 0;
        root.insert(
            "vehicleTypes".into(),
            Value::Array(
                self.vtypes
                    .iter()
                    .enumerate()
                    .map(|(i, t)| {
                        let mut m = serde_json::Map::new();
                        m.insert("id".into(), json!(self.vt_id(i)));
                        m.insert("capacity".into(), json!(t.capacity));
                        m.insert("seats".into(), json!(t.seats));
                        put_opt(&mut m, "maximalFormationCount", opt(t.max_form));
                        Value::Object(m)
                    })
                    .collect(),
            ),
        );
        root.insert(
            "locations".into(),
            Value::Array(
                (0..self.nlocs)
                    .map(|i| {
                        let mut m = serde_json::Map::new();
                        m.insert("id".into(), json!(self.loc_id(i)));
                        if extra && i % 2 == 0 {
                            m.insert("dayLimit".into(), json!(5));
                        }
                        Value::Object(m)
                    })
                    .collect(),
            ),
        );
        match &self.depots {
            Some(ds) => {
                root.insert(
                    "depots".into(),
                    Value::Array(
                        ds.iter()
                            .enumerate()
                            .map(|(i, d)| {
                                json!({
                                    "id": self.depot_id(i),
                                    "location": self.loc_id(d.loc),
                                    "capacity": d.capacity,
                                    "allowedTypes": d.allowed.iter().map(|(vt, c)| {
                                        let mut m = serde_json::Map::new();
                                        m.insert("vehicleType".into(), json!(self.vt_id(*vt)));
                                        put_opt(&mut m, "capacity", opt(*c));
                                        Value::Object(m)
                                    }).collect::<Vec<_>>(),
                                })
                            })
                            .collect(),
                    ),
                );
            }
            None => put_opt(&mut root, "depots", None),
        }
        root.insert(
            "routes".into(),
            Value::Array(
                self.routes
                    .iter()
                    .enumerate()
                    .map(|(r, route)| {
                        json!({
                            "id": self.route_id(r),
                            "vehicleType": self.vt_id(route.vt),
                            "segments": route.segs.iter().enumerate().map(|(j, s)| {
                                let mut m = serde_json::Map::new();
                                m.insert("id".into(), json!(self.rseg_id(r, j)));
                                m.insert("order".into(), json!(j));
                                m.insert("origin".into(), json!(self.loc_id(s.origin)));
                                m.insert("destination".into(), json!(self.loc_id(s.dest)));
                                m.insert("distance".into(), json!(s.distance));
                                m.insert("duration".into(), json!(s.duration));
                                put_opt(&mut m, "maximalFormationCount", opt(s.max_form));
                                Value::Object(m)
                            }).collect::<Vec<_>>(),
                        })
                    })
                    .collect(),
            ),
        );
        root.insert(
            "departures".into(),
            Value::Array(
                self.departures
                    .iter()
                    .enumerate()
                    .map(|(d, dep)| {
                        json!({
                            "id": self.dep_id(d),
                            "route": self.route_id(dep.route),
                            "segments": dep.segs.iter().enumerate().map(|(j, s)| json!({
                                "id": self.dseg_id(d, j),
                                "routeSegment": self.rseg_id(dep.route, s.rseg),
                                "departure": secs_to_iso(s.departure),
                                "passengers": s.passengers,
                                "seated": s.seated,
                            })).collect::<Vec<_>>(),
                        })
                    })
                    .collect(),
            ),
        );
        if !(self.maint.is_empty() && self.render & 4 != 0) {
            root.insert(
                "maintenanceSlots".into(),
                Value::Array(
                    self.maint
                        .iter()
                        .enumerate()
                        .map(|(i, m)| {
                            json!({
                                "id": self.maint_id(i),
                                "location": self.loc_id(m.loc),
                                "start": secs_to_iso(m.start),
                                "end": secs_to_iso(m.end),
                                "trackCount": m.tracks,
                            })
                        })
                        .collect(),
                ),
            );
        } else {
            put_opt(&mut root, "maintenanceSlots", None);
        }
        root.insert(
            "deadHeadTrips".into(),
            json!({
                "indices": self.dh_idx.iter().map(|&i| self.loc_id(i)).collect::<Vec<_>>(),
                "durations": self.dh_dur,
                "distances": self.dh_dist,
            }),
        );
        let mut params = serde_json::Map::new();
        if !(self.render & 1 != 0 && !self.forbid) {
            params.insert("forbidDeadHeadTrips".into(), json!(self.forbid));
        } else {
            put_opt(&mut params, "forbidDeadHeadTrips", None);
        }
        if extra {
            params.insert("dayLimitThreshold".into(), json!(300));
        }
        params.insert(
            "shunting".into(),
            json!({"minimalDuration": self.shunt_min, "deadHeadTripDuration": self.shunt_dh}),
        );
        if !(self.render & 8 != 0 && self.max_dist == 0) {
            params.insert("maintenance".into(), json!({"maximalDistance": self.max_dist}));
        } else {
            put_opt(&mut params, "maintenance", None);
        }
        let mut costs = serde_json::Map::new();
        costs.insert("staff".into(), json!(self.c_staff));
        costs.insert("serviceTrip".into(), json!(self.c_service));
        if !(self.render & 16 != 0 && self.c_maint == 0) {
            costs.insert("maintenance".into(), json!(self.c_maint));
        } else {
            put_opt(&mut costs, "maintenance", None);
        }
        costs.insert("deadHeadTrip".into(), json!(self.c_dh));
        costs.insert("idle".into(), json!(self.c_idle));
        params.insert("costs".into(), Value::Object(costs));
        root.insert("parameters".into(), Value::Object(params));
        Value::Object(root)
    }

    pub fn to_text(&self) -> String {
        let mut s = String::new();
        let o = |v: Option<u64>| v.map(|x| x.to_string()).unwrap_or("-".to_string());
        for t in &self.vtypes {
            s += &format!("I vt {} {} {}\n", t.capacity, t.seats, o(t.max_form));
        }
        s += &format!("I nlocs {}\n", self.nlocs);
        match &self.depots {
            None => {
                s += "I nodepots\n";
                s += &format!(
                    "I defaultorder {}\n",
                    self.default_order.iter().map(|x| x.to_string()).collect::<Vec<_>>().join(" ")
                );
            }
            Some(ds) => {
                s += "I givendepots\n";
                for d in ds {
                    s += &format!("I depot {} {}", d.loc, d.capacity);
                    for (vt, c) in &d.allowed {
                        s += &format!(" {} {}", vt, o(*c));
                    }
                    s += "\n";
                }
            }
        }
        for r in &self.routes {
            s += &format!("I route {}\n", r.vt);
            for g in &r.segs {
                s += &format!(
                    "I rseg {} {} {} {} {}\n",
                    g.origin, g.dest, g.distance, g.duration, o(g.max_form)
                );
            }
        }
        for d in &self.departures {
            s += &format!("I departure {}\n", d.route);
            for g in &d.segs {
                s += &format!("I dseg {} {} {} {}\n", g.rseg, g.departure, g.passengers, g.seated);
            }
        }
        for m in &self.maint {
            s += &format!("I maint {} {} {} {}\n", m.loc, m.start, m.end, m.tracks);
        }
        let row = |r: &Vec<u64>| r.iter().map(|x| x.to_string()).collect::<Vec<_>>().join(" ");
        s += &format!(
            "I dhidx {}\n",
            self.dh_idx.iter().map(|x| x.to_string()).collect::<Vec<_>>().join(" ")
        );
        for r in &self.dh_dur {
            s += &format!("I dhdur {}\n", row(r));
        }
        for r in &self.dh_dist {
            s += &format!("I dhdist {}\n", row(r));
        }
        s += &format!(
            "I params {} {} {} {} {} {} {} {} {}\n",
            self.forbid as u8,
            self.shunt_min,
            self.shunt_dh,
            self.max_dist,
            self.c_staff,
            self.c_service,
            self.c_maint,
            self.c_dh,
            self.c_idle
        );
        s += &format!("I render {} {}\n", self.render, if self.prefix.is_empty() { "-" } else { &self.prefix });
        s
    }

    /// parse the `I ...` lines of a case file
    pub fn from_text(text: &str) -> Inst {
        let mut i = Inst {
            vtypes: vec![],
            nlocs: 0,
            depots: None,
            default_order: vec![],
            routes: vec![],
            departures: vec![],
            maint: vec![],
            dh_idx: vec![],
            dh_dur: vec![],
            dh_dist: vec![],
            forbid: false,
            shunt_min: 0,
            shunt_dh: 0,
            max_dist: 0,
            c_staff: 0,
            c_service: 0,
            c_maint: 0,
            c_dh: 0,
            c_idle: 0,
            render: 0,
            prefix: String::new(),
        };
        let o = |s: &str| if s == "-" { None } else { Some(s.parse::<u64>().unwrap()) };
        let n = |s: &str| s.parse::<u64>().unwrap();
        for line in text.lines() {
            let t: Vec<&str> = line.split_whitespace().collect();
            if t.len() < 2 || t[0] != "I" {
                continue;
            }
            match t[1] {
                "vt" => i.vtypes.push(VType { capacity: n(t[2]), seats: n(t[3]), max_form: o(t[4]) }),
                "nlocs" => i.nlocs = n(t[2]) as usize,
                "nodepots" => i.depots = None,
                "givendepots" => i.depots = Some(vec![]),
                "defaultorder" => i.default_order = t[2..].iter().map(|x| n(x) as usize).collect(),
                "depot" => {
                    let mut allowed = vec![];
                    let mut k = 4;
                    while k + 1 < t.len() {
                        allowed.push((n(t[k]) as usize, o(t[k + 1])));
                        k += 2;
                    }
                    i.depots.as_mut().unwrap().push(InDepot {
                        loc: n(t[2]) as usize,
                        capacity: n(t[3]),
                        allowed,
                    });
                }
                "route" => i.routes.push(Route { vt: n(t[2]) as usize, segs: vec![] }),
                "rseg" => i.routes.last_mut().unwrap().segs.push(RSeg {
                    origin: n(t[2]) as usize,
                    dest: n(t[3]) as usize,
                    distance: n(t[4]),
                    duration: n(t[5]),
                    max_form: o(t[6]),
                }),
                "departure" => i.departures.push(Departure { route: n(t[2]) as usize, segs: vec![] }),
                "dseg" => i.departures.last_mut().unwrap().segs.push(DSeg {
                    rseg: n(t[2]) as usize,
                    departure: n(t[3]),
                    passengers: n(t[4]),
                    seated: n(t[5]),
                }),
                "maint" => i.maint.push(Maint {
                    loc: n(t[2]) as usize,
                    start: n(t[3]),
                    end: n(t[4]),
                    tracks: n(t[5]),
                }),
                "dhidx" => i.dh_idx = t[2..].iter().map(|x| n(x) as usize).collect(),
                "dhdur" => i.dh_dur.push(t[2..].iter().map(|x| n(x)).collect()),
                "dhdist" => i.dh_dist.push(t[2..].iter().map(|x| n(x)).collect()),
                "params" => {
                    i.forbid = t[2] == "1";
                    i.shunt_min = n(t[3]);
                    i.shunt_dh = n(t[4]);
                    i.max_dist = n(t[5]);
                    i.c_staff = n(t[6]);
                    i.c_service = n(t[7]);
                    i.c_maint = n(t[8]);
                    i.c_dh = n(t[9]);
                    i.c_idle = n(t[10]);
                }
                "render" => {
                    i.render = n(t[2]);
                    i.prefix = if t[3] == "-" { String::new() } else { t[3].to_string() };
                }
                _ => panic!("unknown instance line: {}", line),
            }
        }
        i
    }
}

// ------------------------------------------------------------------------------------------
/// knobs of the structured generator
#[derive(Clone, Debug)]
pub struct Profile {
    pub min_types: u64,
    pub max_types: u64,
    pub max_locs: u64,
    pub min_locs: u64,
    pub min_departures: u64,
    pub max_departures: u64,
    pub max_route_segs: u64,
    pub maint_percent: u64, // chance that the instance has maintenance slots at all
    pub max_maint: u64,
    pub span_steps: u64,    // width of the time window in grid steps
    pub max_demand_factor: u64, // vehicles needed per trip, upper end
    /// bias towards several rotation cycles per type: slots with several tracks, a generous
    /// maintenance distance (so that every maintained vehicle opens its own cycle), few types
    pub maint_heavy: bool,
    /// bias towards non-transitive reachability: a long minimal shunting at the same station but
    /// free and instant dead-heads between different stations (a -> x -> b feasible, a -> b not)
    pub non_transitive: bool,
    /// see `fleet_heavy()`
    pub fleet_heavy: bool,
}

impl Profile {
    pub fn small() -> Profile {
        Profile {
            min_types: 1,
            max_types: 2,
            max_locs: 3,
            min_locs: 2,
            min_departures: 2,
            max_departures: 6,
            max_route_segs: 2,
            maint_percent: 60,
            max_maint: 2,
            span_steps: 24,
            max_demand_factor: 2,
            maint_heavy: false,
            non_transitive: false,
            fleet_heavy: false,
        }
    }
    pub fn medium() -> Profile {
        Profile {
            min_types: 1,
            max_types: 3,
            max_locs: 4,
            min_locs: 2,
            min_departures: 3,
            max_departures: 9,
            max_route_segs: 3,
            maint_percent: 65,
            max_maint: 3,
            span_steps: 60,
            max_demand_factor: 4,
            maint_heavy: false,
            non_transitive: false,
            fleet_heavy: false,
        }
    }
    /// larger single-type fleets with several maintained vehicles, depots at different locations
    /// and asymmetric dead-head matrices: rotation cycles of three and more vehicles
    pub fn fleet_heavy() -> Profile {
        Profile {
            min_types: 1,
            max_types: 1,
            max_locs: 3,
            min_locs: 2,
            min_departures: 6,
            max_departures: 12,
            max_route_segs: 1,
            maint_percent: 100,
            max_maint: 2,
            span_steps: 30,
            max_demand_factor: 1,
            maint_heavy: true,
            non_transitive: false,
            fleet_heavy: true,
        }
    }
    /// like `fleet_heavy`, but three or four locations (one default depot each) and few
    /// maintained vehicles: long rotation cycles whose greedy order the cycle 3-opt improves
    pub fn cycle_heavy() -> Profile {
        Profile {
            min_types: 1,
            max_types: 1,
            max_locs: 5,
            min_locs: 4,
            min_departures: 8,
            max_departures: 14,
            max_route_segs: 1,
            maint_percent: 100,
            max_maint: 2,
            span_steps: 30,
            max_demand_factor: 1,
            maint_heavy: true,
            non_transitive: false,
            fleet_heavy: true,
        }
    }
    /// two or three types, each with a fleet of its own (every type has a route, many single-segment
    /// departures, several maintained vehicles): the transition optimiser changes the rotation
    /// cycles of more than one type in the same run
    pub fn multi_fleet() -> Profile {
        Profile {
            min_types: 2,
            max_types: 2,
            max_locs: 5,
            min_locs: 3,
            min_departures: 12,
            max_departures: 20,
            max_route_segs: 1,
            maint_percent: 100,
            max_maint: 2,
            span_steps: 30,
            max_demand_factor: 1,
            maint_heavy: true,
            non_transitive: false,
            fleet_heavy: true,
        }
    }
    pub fn maint_heavy() -> Profile {
        Profile {
            min_types: 1,
            max_types: 2,
            max_locs: 3,
            min_locs: 2,
            min_departures: 3,
            max_departures: 8,
            max_route_segs: 2,
            maint_percent: 100,
            max_maint: 3,
            span_steps: 40,
            max_demand_factor: 2,
            maint_heavy: true,
            non_transitive: false,
            fleet_heavy: false,
        }
    }
}

pub const GRID: u64 = 600;
pub const BASE: u64 = 86400 * 40; // 2024-02-10: dead-head trips of several days before the first activity stay inside 2024

pub fn gen_instance(rng: &mut Rng, p: &Profile) -> Inst {
    let ntypes = rng.range(p.min_types, p.max_types) as usize;
    let nlocs = rng.range(p.min_locs, p.max_locs) as usize;
    let mut vtypes = vec![];
    for _ in 0..ntypes {
        let capacity = *rng.pick(&[10u64, 20, 50, 100]);
        let seats = match rng.below(3) {
            0 => capacity,
            1 => (capacity / 2).max(1),
            _ => rng.range(1, capacity),
        };
        let max_form = match rng.below(5) {
            0 | 1 => None,
            2 => Some(1),
            3 => Some(2),
            _ => Some(3),
        };
        vtypes.push(VType { capacity, seats, max_form });
    }
    // routes
    let nroutes = if p.min_types > 1 { ntypes } else { rng.range(1, 3.max(ntypes as u64)) as usize };
    let mut routes: Vec<Route> = vec![];
    for r in 0..nroutes {
        // make sure every type has a route with reasonable probability
        let vt = if p.min_types > 1 { r } else if r < ntypes && rng.chance(80) { r } else { rng.below(ntypes as u64) as usize };
        let nsegs = rng.range(1, p.max_route_segs) as usize;
        let mut segs = vec![];
        let mut at = rng.below(nlocs as u64) as usize;
        for _ in 0..nsegs {
            let dest = if rng.chance(85) {
                (at + 1 + rng.below(nlocs as u64 - 1) as usize) % nlocs
            } else {
                at // a round trip segment
            };
            segs.push(RSeg {
                origin: at,
                dest,
                distance: *rng.pick(&[100u64, 400, 600, 1000, 2000]),
                duration: GRID * rng.range(1, 6),
                max_form: match rng.below(6) {
                    0 => Some(1),
                    1 => Some(2),
                    2 => Some(3),
                    _ => None,
                },
            });
            at = dest;
        }
        routes.push(Route { vt, segs });
    }
    // departures on a coarse grid so that ties and back-to-back connections are frequent
    let ndeps = rng.range(p.min_departures, p.max_departures) as usize;
    let mut departures = vec![];
    for _ in 0..ndeps {
        let route = rng.below(nroutes as u64) as usize;
        let vt = &vtypes[routes[route].vt];
        let mut t = BASE + GRID * rng.below(p.span_steps);
        let mut segs = vec![];
        // sometimes only a prefix/suffix of the route's segments is operated
        let all = routes[route].segs.len();
        let (from, to) = if rng.chance(80) { (0, all) } else { let f = rng.below(all as u64) as usize; (f, f + 1) };
        for j in from..to {
            let k = rng.range(1, p.max_demand_factor);
            let passengers = match rng.below(10) {
                0 => 0,
                1 => 1,
                _ => (vt.capacity * k).saturating_sub(rng.below(vt.capacity)),
            };
            let seated = match rng.below(4) {
                0 => 0,
                1 => (vt.seats * k).saturating_sub(rng.below(vt.seats)),
                _ => passengers.min(vt.seats * rng.range(1, k)),
            };
            // boundary of the two vehicle requirements: passengers fill k vehicles exactly while the
            // seated passengers need one more (k * seats < seated <= (k + 1) * seats)
            let (passengers, seated) = if vt.capacity > vt.seats && rng.chance(15) {
                let room = (vt.capacity - vt.seats) * k;
                let r = rng.range(1, vt.seats).min(room);
                (vt.capacity * k, vt.seats * k + r)
            } else {
                (passengers, seated)
            };
            segs.push(DSeg { rseg: j, departure: t, passengers, seated });
            t += routes[route].segs[j].duration + GRID * *rng.pick(&[0u64, 0, 1, 2]);
        }
        departures.push(Departure { route, segs });
    }
    // maintenance slots
    let mut maint = vec![];
    if rng.chance(p.maint_percent) {
        let n = rng.range(1, p.max_maint);
        for _ in 0..n {
            let start = BASE + GRID * rng.below(p.span_steps + 6);
            maint.push(Maint {
                loc: rng.below(nlocs as u64) as usize,
                start,
                end: start + GRID * rng.range(1, 8),
                tracks: if p.maint_heavy { *rng.pick(&[2u64, 2, 3]) } else { *rng.pick(&[1u64, 1, 2, 2, 3]) },
            });
        }
    }
    // now and then a maintenance slot one to three days away from the timetable (the planning
    // horizon, to which dead-head durations are clamped, must cover the slots too)
    let mut far_slot: Option<usize> = None;
    if !maint.is_empty() && rng.chance(6) {
        let k = rng.below(maint.len() as u64) as usize;
        far_slot = Some(maint[k].loc);
        let shift = 86400 * rng.range(1, 3);
        if rng.chance(75) {
            maint[k].start += shift;
            maint[k].end += shift;
        } else if maint[k].start >= 86400 {
            maint[k].start -= 86400;
            maint[k].end -= 86400;
        }
    }
    // depots
    let depots = if p.fleet_heavy {
        None
    } else if rng.chance(65) {
        let nd = rng.range(1, 3) as usize;
        let mut ds = vec![];
        for _ in 0..nd {
            let mut allowed = vec![];
            for vt in 0..ntypes {
                if rng.chance(80) {
                    allowed.push((
                        vt,
                        match rng.below(5) {
                            0 => Some(0),
                            1 => Some(1),
                            2 => Some(3),
                            _ => None,
                        },
                    ));
                }
            }
            ds.push(InDepot {
                loc: rng.below(nlocs as u64) as usize,
                capacity: *rng.pick(&[0u64, 1, 2, 5, 50]),
                allowed,
            });
        }
        Some(ds)
    } else {
        None
    };
    // dead-head matrices
    let mut dh_idx: Vec<usize> = (0..nlocs).collect();
    if rng.chance(30) {
        rng.shuffle(&mut dh_idx);
    }
    let style = if p.fleet_heavy { 1 } else { rng.below(4) }; // 0 metric-ish, 1 random grid, 2 zeros, 3 with extreme entries
    let mut dh_dur = vec![vec![0u64; nlocs]; nlocs];
    let mut dh_dist = vec![vec![0u64; nlocs]; nlocs];
    for a in 0..nlocs {
        for b in 0..nlocs {
            let (la, lb) = (dh_idx[a], dh_idx[b]);
            let (dur, dist) = if la == lb {
                if rng.chance(10) { (GRID, 300) } else { (0, 0) }
            } else {
                match style {
                    0 => {
                        let d = (la as i64 - lb as i64).unsigned_abs();
                        (GRID * d, 500 * d)
                    }
                    1 => (GRID * rng.below(4), *rng.pick(&[0u64, 200, 700, 1500])),
                    2 => (0, 0),
                    _ => {
                        if rng.chance(25) {
                            (GRID * 1000, 5_000_000)
                        } else {
                            (GRID * rng.below(3), *rng.pick(&[100u64, 900]))
                        }
                    }
                }
            };
            dh_dur[a][b] = dur;
            dh_dist[a][b] = dist;
        }
    }
    // a slot days away: often only reachable by a dead-head trip longer than the timetable's own
    // span, so that the clamp of dead-head durations to the planning horizon decides reachability
    if let Some(l) = far_slot {
        if nlocs > 1 && rng.chance(60) {
            if let Some(b) = dh_idx.iter().position(|&x| x == l) {
                for a in 0..nlocs {
                    if a != b {
                        dh_dur[a][b] = GRID * 1000;
                    }
                }
            }
        }
    }
    // metre resolution (odd distances): sums that differ by a single metre (C08: the levels of the
    // objective are compared exactly, also above 2^24)
    let metre = rng.chance(35);
    if metre {
        for a in 0..nlocs {
            for b in 0..nlocs {
                if dh_dist[a][b] > 0 {
                    dh_dist[a][b] += rng.below(10);
                }
            }
        }
        for r in routes.iter_mut() {
            for g in r.segs.iter_mut() {
                g.distance += rng.below(10);
            }
        }
    }
    if p.non_transitive {
        for a in 0..nlocs {
            for b in 0..nlocs {
                dh_dur[a][b] = 0;
            }
        }
    }
    let (shunt_min, shunt_dh) = if p.non_transitive { (*rng.pick(&[1200u64, 1800, 2400]), 0) } else { *rng.pick(&[(0u64, 0u64), (0, 0), (0, 300), (0, 600), (300, 300), (600, 600), (600, 0)]) };
    // two maintenance slots at different locations, the second one starting exactly when a vehicle
    // coming from the first one can be there: dead-head duration plus dead-head shunting on BOTH
    // sides (a maintenance slot is not a depot), or one shunting too early (C01 / C17)
    if maint.len() >= 2 && far_slot.is_none() && nlocs > 1 && shunt_dh > 0 && !p.non_transitive && rng.chance(35) {
        let l0 = maint[0].loc;
        let l1 = if maint[1].loc != l0 { maint[1].loc } else { (l0 + 1) % nlocs };
        let (r0, r1) = (
            dh_idx.iter().position(|&x| x == l0).unwrap_or(l0),
            dh_idx.iter().position(|&x| x == l1).unwrap_or(l1),
        );
        if dh_dur[r0][r1] < GRID * 100 {
            let len = maint[1].end - maint[1].start;
            maint[1].loc = l1;
            maint[1].start = maint[0].end + dh_dur[r0][r1] + if rng.chance(50) { shunt_dh } else { 2 * shunt_dh };
            maint[1].end = maint[1].start + len;
        }
    }
    // a maintenance slot that is the ONLY connection between two trips of one type: the trip ending
    // at a reaches the slot at l, the slot reaches the trip starting at b, but the direct dead-head
    // a -> b takes days (dead-head matrices need not be metric). Taking the slot out of a tour
    // [.., trip, slot, trip, ..] must be refused (C10 / C12 / C01).
    if !maint.is_empty() && far_slot.is_none() && nlocs >= 3 && !p.non_transitive && rng.chance(20) {
        let mut ends = vec![];
        let mut starts = vec![];
        for d in &departures {
            let r = &routes[d.route];
            for g in &d.segs {
                let rs = &r.segs[g.rseg];
                ends.push((g.departure + rs.duration, rs.dest, r.vt));
                starts.push((g.departure, rs.origin, r.vt));
            }
        }
        let mut pairs = vec![];
        for e in &ends {
            for s in &starts {
                if e.2 == s.2 && e.1 != s.1 && s.0 >= e.0 + 4 * shunt_dh + GRID {
                    pairs.push((*e, *s));
                }
            }
        }
        if !pairs.is_empty() {
            let (e, s) = *rng.pick(&pairs);
            let l = (0..nlocs).find(|x| *x != e.1 && *x != s.1).unwrap();
            let row = |loc: usize| dh_idx.iter().position(|&x| x == loc).unwrap_or(loc);
            let (ra, rb, rl) = (row(e.1), row(s.1), row(l));
            dh_dur[ra][rl] = 0;
            dh_dur[rl][rb] = 0;
            dh_dur[ra][rb] = GRID * 1000;
            let k = maint.len() - 1;
            maint[k].loc = l;
            maint[k].start = e.0 + 2 * shunt_dh;
            maint[k].end = s.0 - 2 * shunt_dh;
        }
    }
    let max_dist = if maint.is_empty() && rng.chance(50) {
        0
    } else if !maint.is_empty() && rng.chance(8) {
        // slots given but the optional `maintenance` parameter left out (documented: 0)
        0
    } else if p.maint_heavy {
        // a fraction of the fleet's service distance, so that several tracks are allotted and
        // several maintained vehicles (= several rotation cycles) are needed
        let total: u64 = departures
            .iter()
            .map(|d| d.segs.iter().map(|g| routes[d.route].segs[g.rseg].distance).sum::<u64>())
            .sum();
        if rng.chance(75) { (total / rng.range(2, 4)).max(500) } else { *rng.pick(&[50_000u64, 1_000_000]) }
    } else {
        *rng.pick(&[500u64, 1500, 3000, 5000, 50_000, 1_000_000])
    };
    Inst {
        vtypes,
        nlocs,
        depots,
        default_order: vec![],
        routes,
        departures,
        maint,
        dh_idx,
        dh_dur,
        dh_dist,
        forbid: rng.chance(25),
        shunt_min,
        shunt_dh,
        max_dist,
        c_staff: *rng.pick(&[0u64, 10, 100]),
        c_service: *rng.pick(&[0u64, 1, 5, 50]),
        c_maint: *rng.pick(&[0u64, 0, 2, 30]),
        c_dh: *rng.pick(&[0u64, 1, 7, 100]),
        c_idle: *rng.pick(&[0u64, 1, 3, 20]),
        render: rng.below(128),
        prefix: String::new(),
    }
}

/// Instances whose local search needs MORE accepted steps than the network has nodes (C08: the search
/// runs to a fixpoint however long that takes): few service trips, each served by a long formation
/// (so the fleet is several times larger than the network), one maintenance slot with room for the
/// whole fleet, and a maximal distance that every vehicle exceeds in a day. The start solution sends
/// only a part of the fleet to maintenance; the search sends the others, one vehicle per step.
pub fn long_trajectory_instance(rng: &mut Rng) -> Inst {
    let k = rng.range(3, 6);
    let n_trips = rng.range(3, 5) as usize;
    let capacity = *rng.pick(&[20u64, 50, 100]);
    let seats = (capacity * 6) / 10;
    let dist = *rng.pick(&[20_000u64, 50_000]);
    let dur = GRID * rng.range(3, 5);
    let mut departures = vec![];
    for i in 0..n_trips {
        departures.push(Departure {
            route: 0,
            segs: vec![DSeg { rseg: 0, departure: BASE + 60 * i as u64, passengers: capacity * k, seated: seats * k }],
        });
    }
    let last_arrival = BASE + 60 * n_trips as u64 + dur;
    let mstart = last_arrival + GRID * rng.range(2, 6);
    Inst {
        vtypes: vec![VType { capacity, seats, max_form: Some(k) }],
        nlocs: 2,
        depots: Some(vec![
            InDepot { loc: 0, capacity: 100, allowed: vec![(0, None)] },
            InDepot { loc: 1, capacity: 100, allowed: vec![(0, None)] },
        ]),
        default_order: vec![],
        routes: vec![Route { vt: 0, segs: vec![RSeg { origin: 0, dest: 1, distance: dist, duration: dur, max_form: None }] }],
        departures,
        maint: vec![Maint { loc: 1, start: mstart, end: mstart + GRID * 6, tracks: k * n_trips as u64 + rng.range(0, 6) }],
        dh_idx: vec![0, 1],
        dh_dur: vec![vec![0, dur - GRID], vec![dur - GRID, 0]],
        dh_dist: vec![vec![0, dist], vec![dist, 0]],
        forbid: false,
        shunt_min: 120,
        shunt_dh: 300,
        max_dist: 2 * dist,
        c_staff: 100,
        c_service: 50,
        c_maint: 0,
        c_dh: 500,
        c_idle: 20,
        render: rng.below(128),
        prefix: String::new(),
    }
}
