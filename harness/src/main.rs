//! rsv: correspondence harness. Generates structured cases from one PRNG seed, runs the REAL code
//! in-process on them and writes, per case, the instance, the operations and a canonical dump of
//! every observable. The Lean driver (`rsmodel`) replays the same case on the model and evaluates
//! the property monitors on the implementation's dumped states.
mod ctx;
mod inst;
mod prng;
mod scopes;

use std::fs;
use std::path::PathBuf;

fn arg<'a>(args: &'a [String], key: &str) -> Option<&'a str> {
    args.iter().position(|a| a == key).and_then(|p| args.get(p + 1)).map(|s| s.as_str())
}

fn main() {
    let args: Vec<String> = std::env::args().collect();
    if args.len() < 2 {
        eprintln!("usage: rsv gen <scope> --seed S --n N --out DIR [--tier quick|thorough] | rsv run <case> --out FILE | rsv pipe-child <json> <out>");
        std::process::exit(2);
    }
    ctx::install_panic_hook();
    match args[1].as_str() {
        "gen" => {
            let scope = args[2].clone();
            let seed: u64 = arg(&args, "--seed").unwrap_or("1").parse().unwrap();
            let n: u64 = arg(&args, "--n").unwrap_or("10").parse().unwrap();
            let first: u64 = arg(&args, "--first").unwrap_or("0").parse().unwrap();
            let out = PathBuf::from(arg(&args, "--out").unwrap_or("out"));
            let tier = arg(&args, "--tier").unwrap_or("quick").to_string();
            fs::create_dir_all(&out).unwrap();
            for k in first..first + n {
                let mut rng = prng::Rng::derive(seed, &scope, k);
                let name = format!("{}_{}_{}", scope, seed, k);
                let text = scopes::generate(&scope, &name, seed, k, &mut rng, &tier);
                fs::write(out.join(format!("{}.case", name)), text).unwrap();
            }
        }
        "run" => {
            let file = &args[2];
            let out = arg(&args, "--out").unwrap();
            let text = fs::read_to_string(file).unwrap();
            let res = scopes::rerun(&text);
            fs::write(out, res).unwrap();
        }
        "pipe-child" => {
            scopes::pipe_child(&args[2], &args[3]);
        }
        "genreq" => {
            // rsv genreq --seed S --n N --out DIR : request bodies for the serve scope
            let seed: u64 = arg(&args, "--seed").unwrap_or("1").parse().unwrap();
            let n: u64 = arg(&args, "--n").unwrap_or("10").parse().unwrap();
            let out = PathBuf::from(arg(&args, "--out").unwrap_or("out"));
            fs::create_dir_all(&out).unwrap();
            scopes::serve::genreq(seed, n, &out);
        }
        "flatten" => {
            // rsv flatten <instance text> <response json> <out>
            let inst = inst::Inst::from_text(&fs::read_to_string(&args[2]).unwrap());
            let body = fs::read_to_string(&args[3]).unwrap();
            fs::write(&args[4], scopes::serve::flatten(inst, &body)).unwrap();
        }
        other => {
            eprintln!("unknown command {}", other);
            std::process::exit(2);
        }
    }
}
