//! Loading an instance with the real loader and canonical dumps of the real data structures.
use crate::inst::{iso_to_secs, Inst};
use model::base_types::{DepotIdx, Distance, Location, NodeIdx, VehicleIdx, VehicleTypeIdx};
use model::network::nodes::Node;
use model::network::Network;
use rapid_time::{DateTime, Duration};
use solution::tour::Tour;
use solution::transition::Transition;
use solution::Schedule;
use std::fmt::Write;
use std::panic::{catch_unwind, AssertUnwindSafe};
use std::sync::Arc;

// process-wide (panics may happen on rayon worker threads); the first site after a reset wins
static LAST_PANIC: std::sync::Mutex<String> = std::sync::Mutex::new(String::new());

pub fn install_panic_hook() {
    std::panic::set_hook(Box::new(|info| {
        let loc = info
            .location()
            .map(|l| {
                let f = l.file();
                let f = f.rsplit("/repo/").next().unwrap_or(f);
                format!("{}:{}", f.replace(' ', "_"), l.line())
            })
            .unwrap_or_else(|| "unknown".to_string());
        let mut p = LAST_PANIC.lock().unwrap_or_else(|e| e.into_inner());
        if p.is_empty() {
            *p = loc;
        }
    }));
}

/// run `f`, turning a panic into `Err(site)`
pub fn guarded<T>(f: impl FnOnce() -> T) -> Result<T, String> {
    LAST_PANIC.lock().unwrap_or_else(|e| e.into_inner()).clear();
    match catch_unwind(AssertUnwindSafe(f)) {
        Ok(v) => Ok(v),
        Err(_) => {
            let site = LAST_PANIC.lock().unwrap_or_else(|e| e.into_inner()).clone();
            Err(if site.is_empty() { "unknown".to_string() } else { site })
        }
    }
}

pub struct Ctx {
    pub inst: Inst,
    pub nw: Arc<Network>,
    /// node idx (global counter) -> NodeIdx
    pub nodes: Vec<NodeIdx>,
}

pub fn time_tok(t: DateTime) -> String {
    match t {
        DateTime::Earliest => "E".to_string(),
        DateTime::Latest => "L".to_string(),
        p => iso_to_secs(&p.as_iso()).map(|s| s.to_string()).unwrap_or_else(|e| format!("?{}", e)),
    }
}
pub fn dur_tok(d: Duration) -> String {
    match d.in_sec() {
        Ok(s) => s.to_string(),
        Err(_) => "I".to_string(),
    }
}
pub fn dist_tok(d: Distance) -> String {
    match d {
        Distance::Distance(m) => m.to_string(),
        Distance::Infinity => "I".to_string(),
    }
}
pub fn loc_tok(l: Location) -> String {
    match l {
        Location::Station(i) => i.0.to_string(),
        Location::Nowhere => "N".to_string(),
    }
}
pub fn opt_tok<T: ToString>(o: Option<T>) -> String {
    o.map(|x| x.to_string()).unwrap_or_else(|| "-".to_string())
}
pub fn veh_tok(v: VehicleIdx) -> String {
    match v {
        VehicleIdx::Vehicle(i) => format!("v{}", i),
        VehicleIdx::Dummy(i) => format!("u{}", i),
    }
}
pub fn parse_veh(s: &str) -> VehicleIdx {
    let i: u16 = s[1..].parse().unwrap();
    if s.starts_with('v') {
        VehicleIdx::vehicle_from(i)
    } else {
        VehicleIdx::dummy_from(i)
    }
}
pub fn list_tok<T: ToString>(xs: impl IntoIterator<Item = T>) -> String {
    xs.into_iter().map(|x| x.to_string()).collect::<Vec<_>>().join(" ")
}

impl Ctx {
    /// loads with the real loader; fills in the realised default depot order
    pub fn load(mut inst: Inst) -> Result<Ctx, String> {
        let json = inst.to_json();
        let nw = guarded(|| {
            model::json_serialisation::load_rolling_stock_problem_instance_from_json(json)
        })?;
        Ok(Ctx::from_network(inst, nw))
    }

    /// wraps an already loaded network (e.g. the one a returned schedule refers to)
    pub fn from_network(mut inst: Inst, nw: Arc<Network>) -> Ctx {
        let mut nodes: Vec<NodeIdx> = nw.all_nodes().collect();
        nodes.sort_by_key(|n| n.idx());
        for (k, n) in nodes.iter().enumerate() {
            assert_eq!(k, n.idx() as usize, "node indices are not 0..n");
        }
        if inst.depots.is_none() {
            let ndep = nw.depots_iter().count();
            let mut order = vec![];
            for k in 0..ndep - 1 {
                match nw.get_depot(DepotIdx::from(k as u16)).location() {
                    Location::Station(l) => order.push(l.0 as usize),
                    Location::Nowhere => order.push(usize::MAX),
                }
            }
            inst.default_order = order;
        }
        Ctx { inst, nw, nodes }
    }

    pub fn n(&self, idx: usize) -> NodeIdx {
        self.nodes[idx]
    }
    pub fn vt(&self, i: usize) -> VehicleTypeIdx {
        VehicleTypeIdx::from(i as u16)
    }
    pub fn ntypes(&self) -> usize {
        self.inst.vtypes.len()
    }
    pub fn ndepots(&self) -> usize {
        self.nw.depots_iter().count()
    }

    pub fn node_line(&self, idx: usize) -> String {
        let nw = &self.nw;
        let ni = self.n(idx);
        let node = nw.node(ni);
        let kind = match node {
            Node::StartDepot(_) => "s",
            Node::Service(_) => "t",
            Node::Maintenance(_) => "m",
            Node::EndDepot(_) => "e",
        };
        let (vt, pax, seated, maxform) = if node.is_service() {
            let s = node.as_service_trip();
            (s.vehicle_type().0 as u64, s.passengers() as u64, s.seated() as u64, s.maximal_formation_count())
        } else {
            (0, 0, 0, None)
        };
        let tracks = if node.is_maintenance() { node.as_maintenance_slot().track_count() } else { 0 };
        let depot = if node.is_depot() { node.as_depot().depot_idx().0 } else { 0 };
        format!(
            "node {} {} {} {} {} {} {} {} {} {} {} {} {}",
            idx,
            kind,
            time_tok(node.start_time()),
            time_tok(node.end_time()),
            loc_tok(node.start_location()),
            loc_tok(node.end_location()),
            vt,
            dist_tok(node.travel_distance()),
            pax,
            seated,
            opt_tok(maxform),
            tracks,
            depot
        )
    }

    /// the `N ...` section: everything observable of the loaded network
    pub fn dump_network(&self) -> String {
        let nw = &self.nw;
        let mut s = String::new();
        let n = self.nodes.len();
        writeln!(s, "N size {}", n).unwrap();
        for i in 0..n {
            writeln!(s, "N {}", self.node_line(i)).unwrap();
        }
        writeln!(s, "N planning {}", dur_tok(nw.planning_days())).unwrap();
        writeln!(s, "N nservice {}", nw.number_of_service_nodes()).unwrap();
        writeln!(s, "N maintconsidered {}", nw.maintenance_considered() as u8).unwrap();
        let (od, os, oe) = nw.overflow_depot_idxs();
        writeln!(s, "N ovf {} {} {}", od.0, os.idx(), oe.idx()).unwrap();
        let mut depots: Vec<u16> = nw.depots_iter().map(|d| d.0).collect();
        depots.sort();
        for d in depots.iter() {
            let di = DepotIdx::from(*d);
            writeln!(
                s,
                "N depot {} {} {} {} {} : {}",
                d,
                loc_tok(nw.get_depot(di).location()),
                nw.total_capacity_of(di),
                nw.get_start_depot_node(di).idx(),
                nw.get_end_depot_node(di).idx(),
                list_tok((0..self.ntypes()).map(|vt| nw.capacity_of(di, self.vt(vt))))
            )
            .unwrap();
        }
        for vt in 0..self.ntypes() {
            let t = nw.vehicle_types().get(self.vt(vt)).unwrap();
            writeln!(s, "N vtype {} {} {} {}", vt, t.capacity(), t.seats(), opt_tok(t.maximal_formation_count())).unwrap();
            writeln!(s, "N servicenodes {} : {}", vt, list_tok(nw.service_nodes(self.vt(vt)).map(|x| x.idx()))).unwrap();
            writeln!(
                s,
                "N typesorted {} : {}",
                vt,
                list_tok(nw.nodes_of_vehicle_type_sorted_by_start(self.vt(vt)).map(|x| x.idx()))
            )
            .unwrap();
        }
        writeln!(s, "N maintnodes : {}", list_tok(nw.maintenance_nodes().map(|x| x.idx()))).unwrap();
        writeln!(s, "N startdepots : {}", list_tok(nw.start_depot_nodes().map(|x| x.idx()))).unwrap();
        writeln!(s, "N enddepots : {}", list_tok(nw.end_depot_nodes().map(|x| x.idx()))).unwrap();
        writeln!(s, "N allservice : {}", list_tok(nw.all_service_nodes().map(|x| x.idx()))).unwrap();
        writeln!(s, "N coverable : {}", list_tok(nw.coverable_nodes().map(|x| x.idx()))).unwrap();
        writeln!(s, "N allnodes : {}", list_tok(nw.all_nodes().map(|x| x.idx()))).unwrap();
        for l in 0..self.inst.nlocs {
            let loc = Location::of(model::base_types::LocationIdx::from(l as u16));
            writeln!(s, "N sdsorted {} : {}", l, list_tok(nw.start_depots_sorted_by_distance_to(loc).iter().map(|x| x.idx()))).unwrap();
            writeln!(s, "N edsorted {} : {}", l, list_tok(nw.end_depots_sorted_by_distance_from(loc).iter().map(|x| x.idx()))).unwrap();
        }
        for a in 0..n {
            let na = self.n(a);
            if nw.node(na).is_service() {
                writeln!(s, "N maxform {} {}", a, opt_tok(nw.maximal_formation_count_for(na))).unwrap();
                let vt = nw.vehicle_type_for(na);
                writeln!(s, "N required {} {} {}", vt.0, a, nw.number_of_vehicles_required_to_serve(vt, na)).unwrap();
            }
            for vt in 0..self.ntypes() {
                writeln!(s, "N compat {} {} {}", a, vt, nw.compatible_with_vehicle_type(na, self.vt(vt)) as u8).unwrap();
                let belongs = !nw.node(na).is_service() || nw.vehicle_type_for(na) == self.vt(vt);
                if belongs {
                    writeln!(s, "N succ {} {} : {}", vt, a, list_tok(nw.successors(self.vt(vt), na).map(|x| x.idx()))).unwrap();
                    writeln!(s, "N pred {} {} : {}", vt, a, list_tok(nw.predecessors(self.vt(vt), na).map(|x| x.idx()))).unwrap();
                }
            }
            for b in 0..n {
                let nb = self.n(b);
                let reach = nw.can_reach(na, nb);
                let idle = guarded(|| nw.idle_time_between(na, nb)).map(dur_tok).unwrap_or_else(|_| "P".to_string());
                writeln!(
                    s,
                    "N pair {} {} {} {} {} {} {}",
                    a,
                    b,
                    reach as u8,
                    dur_tok(nw.dead_head_time_between(na, nb)),
                    dist_tok(nw.dead_head_distance_between(na, nb)),
                    idle,
                    dur_tok(nw.minimal_duration_between_nodes(na, nb))
                )
                .unwrap();
            }
        }
        s
    }

    // ---------------------------------------------------------------- tours / schedules
    pub fn tour_line(&self, tour: &Tour) -> String {
        format!(
            "{} {} {} {} {} {} : {}",
            tour.is_dummy() as u8,
            tour.visits_maintenance() as u8,
            dur_tok(tour.useful_duration()),
            dist_tok(tour.service_distance()),
            dist_tok(tour.dead_head_distance()),
            tour.costs(),
            list_tok(tour.all_nodes_iter().map(|x| x.idx()))
        )
    }

    pub fn transition_lines(&self, prefix: &str, vt: usize, tr: &Transition) -> String {
        let mut s = String::new();
        let (lookup, empty) = tr.verif_internals();
        writeln!(
            s,
            "{} trans {} {} {} {}",
            prefix,
            vt,
            tr.number_of_cycles(),
            tr.maintenance_violation(),
            tr.maintenance_counter()
        )
        .unwrap();
        for (k, c) in tr.cycles_iter().enumerate() {
            writeln!(s, "{} cycle {} {} {} : {}", prefix, vt, k, c.maintenance_counter(), list_tok(c.iter().map(veh_tok))).unwrap();
        }
        writeln!(
            s,
            "{} lookup {} : {}",
            prefix,
            vt,
            list_tok(lookup.iter().map(|(v, c)| format!("{} {}", veh_tok(*v), c)))
        )
        .unwrap();
        writeln!(s, "{} empty {} : {}", prefix, vt, list_tok(empty.iter())).unwrap();
        s
    }

    /// canonical dump of a schedule: `<prefix> ...` lines
    pub fn dump_schedule(&self, prefix: &str, sch: &Schedule) -> String {
        let nw = &self.nw;
        let mut s = String::new();
        let (usage, counter) = sch.verif_internals();
        let up = sch.unserved_passengers();
        writeln!(
            s,
            "{} sched {} {} {} {} {} {} {}",
            prefix,
            sch.number_of_vehicles(),
            sch.number_of_dummy_tours(),
            counter,
            up.0,
            up.1,
            sch.maintenance_violation(),
            sch.costs()
        )
        .unwrap();
        for vt in 0..self.ntypes() {
            let ids: Vec<VehicleIdx> = sch.vehicles_iter(self.vt(vt)).collect();
            writeln!(s, "{} vehicles {} : {}", prefix, vt, list_tok(ids.iter().map(|v| veh_tok(*v)))).unwrap();
            for v in ids {
                let t = sch.vehicle_type_of(v).map(|x| x.0 as i64).unwrap_or(-1);
                writeln!(s, "{} tour {} {} {}", prefix, veh_tok(v), t, self.tour_line(sch.tour_of(v).unwrap())).unwrap();
            }
        }
        let dummies: Vec<VehicleIdx> = sch.dummy_iter().collect();
        writeln!(s, "{} dummies : {}", prefix, list_tok(dummies.iter().map(|v| veh_tok(*v)))).unwrap();
        for v in dummies {
            writeln!(s, "{} tour {} -1 {}", prefix, veh_tok(v), self.tour_line(sch.tour_of(v).unwrap())).unwrap();
        }
        for node in nw.coverable_nodes() {
            let f = sch.train_formation_of(node);
            let up = if nw.node(node).is_service() { sch.unserved_passengers_at(node) } else { (0, 0) };
            writeln!(
                s,
                "{} formation {} {} {} : {}",
                prefix,
                node.idx(),
                up.0,
                up.1,
                list_tok(f.iter().map(|v| format!("{} {}", veh_tok(v.idx()), v.type_idx().0)))
            )
            .unwrap();
        }
        for (d, vt, spawned, despawned) in usage.iter() {
            writeln!(
                s,
                "{} usage {} {} : {} | {}",
                prefix,
                d.0,
                vt.0,
                list_tok(spawned.iter().map(|v| veh_tok(*v))),
                list_tok(despawned.iter().map(|v| veh_tok(*v)))
            )
            .unwrap();
        }
        let mut depots: Vec<u16> = nw.depots_iter().map(|d| d.0).collect();
        depots.sort();
        for d in depots {
            let di = DepotIdx::from(d);
            writeln!(
                s,
                "{} spawn {} {} : {}",
                prefix,
                d,
                sch.number_of_vehicles_spawned_at(di),
                list_tok((0..self.ntypes()).map(|vt| format!(
                    "{} {}",
                    sch.number_of_vehicles_of_same_type_spawned_at(di, self.vt(vt)),
                    sch.depot_balance(di, self.vt(vt))
                )))
            )
            .unwrap();
        }
        writeln!(s, "{} balanceviolation {}", prefix, sch.total_depot_balance_violation()).unwrap();
        for vt in 0..self.ntypes() {
            s += &self.transition_lines(prefix, vt, sch.next_day_transition_of(self.vt(vt)));
        }
        writeln!(s, "{} endsched", prefix).unwrap();
        s
    }
}
