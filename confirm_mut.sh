#!/bin/bash
# confirm_mut.sh <id> <crate> <demo file name> : in the scratch worktree ${MUTROOT:-/tmp/mut}/<id> (change applied,
# uncommitted) confirm: suite passes with the change; demo fails with it and passes without it.
id=$1; crate=$2; demo=$3
wt=${MUTROOT:-/tmp/mut}/$id; out=${MUTROOT:-/tmp/mut}/${id}_out
export CARGO_NET_OFFLINE=true CARGO_TARGET_DIR=${MUTROOT:-/tmp/mut}/${id}_target
cd $wt || exit 2
git diff > ${MUTROOT:-/tmp/mut}/${id}_cur.diff
cmp -s ${MUTROOT:-/tmp/mut}/${id}_cur.diff $out/patch.diff || echo "NOTE: worktree diff differs from patch.diff"
suite=$(cargo test --workspace --offline 2>&1 | grep -E "^test result" | awk '{p+=$4; f+=$6} END {print p" passed "f" failed"}')
mkdir -p $wt/$crate/tests; cp $out/$demo $wt/$crate/tests/
t=${demo%.rs}
with=$(cargo test -p $crate --test $t --offline 2>&1 | grep -E "^test result" | head -1)
# (no `git stash`: the stash is shared between all worktrees of a repository)
git diff -- . ':!'$crate/tests > ${MUTROOT:-/tmp/mut}/${id}_cur.diff
git apply -R ${MUTROOT:-/tmp/mut}/${id}_cur.diff
without=$(cargo test -p $crate --test $t --offline 2>&1 | grep -E "^test result" | head -1)
git apply ${MUTROOT:-/tmp/mut}/${id}_cur.diff
rm -rf $wt/$crate/tests
echo "$id suite-with-change: $suite | demo-with-change: $with | demo-without: $without"
